/-
  C04c — HDDM-A / HDDM-W: declarative cut points, run-level decision rules, HDDM-W rise theorem and asymmetry.

  Models: `HDDMA`, `HDDMW` in `FrourosModel/SPC.lean` (unchanged).  Builds on `Props/C04.lean`, `Props/C04b.lean`.
  `aRun`/`wRun c s xs` = state after feeding `xs` from `s`; `segment`/`wsegment c xs` = values since the last reported
  drift (`C04.hddma_segment_spec`, `C04.hddmw_segment_spec`).
    0. `IsFirstArgmin`/`IsLastArgmin`/`IsFirstArgmax`/`IsLastArgmax` on `[1, n]`: existence, uniqueness, running update
    1. HDDM-A (ℝ)  `hddma_cut_declarative(_state)`   x.n = LAST minimiser of mean+ε, y.n = LAST maximiser of mean-ε
                   `hddma_warning_iff_textbook`      run-level drift / warning rule with the textbook Hoeffding test
                   `hddma_flags_declarative`         the same with nothing read from the model state
    2. HDDM-W (every carrier)  `hddmw_flags`         flag table of `step` (precedence logic collapsed), exclusivity, warm-up
    3. HDDM-W (ℝ)  `wmean`, `wibc` closed forms; `hddmw_cut_declarative`  inc/dec cut = FIRST minimiser / maximiser of
                   ewma ± ε_λ;  `hddmw_flags_declarative`  run-level drift / warning ⇔ McDiarmid tests in closed form
    4. HDDM-W (ℝ) on `0^n 1^k`: `hddmw_rise_delay` (exact first drift), `hddmw_rise_exists` (both modes),
                   `exists_isFirstW_iff` (when it exists), `cutStays_of_le` (sufficient condition for the hypothesis),
                   `hddmw_drop_not_mirror_witness` (KF-C04-1: the drop `1^n 0^k` is not flagged like the rise)
  Control flow for every `[Num α]`; arithmetic at `α = ℝ`.
-/
import Mathlib.Tactic
import FrourosProofs.Props.C04
import FrourosProofs.Props.C04b

namespace Frouros.C04c
open Frouros Frouros.C04

/-! ## 0. running arg-min / arg-max of a real sequence on `[1, n]` -/
section Arg

/-- `k` is the FIRST index in `[1, n]` at which `f` attains its minimum over `[1, n]` -/
def IsFirstArgmin (f : ℕ → ℝ) (n k : ℕ) : Prop :=
  1 ≤ k ∧ k ≤ n ∧ (∀ j, 1 ≤ j → j ≤ n → f k ≤ f j) ∧ (∀ j, 1 ≤ j → j < k → f k < f j)
/-- `k` is the LAST index in `[1, n]` at which `f` attains its minimum over `[1, n]` -/
def IsLastArgmin (f : ℕ → ℝ) (n k : ℕ) : Prop :=
  1 ≤ k ∧ k ≤ n ∧ (∀ j, 1 ≤ j → j ≤ n → f k ≤ f j) ∧ (∀ j, k < j → j ≤ n → f k < f j)
/-- first / last index of the maximum -/
def IsFirstArgmax (f : ℕ → ℝ) (n k : ℕ) : Prop :=
  1 ≤ k ∧ k ≤ n ∧ (∀ j, 1 ≤ j → j ≤ n → f j ≤ f k) ∧ (∀ j, 1 ≤ j → j < k → f j < f k)
def IsLastArgmax (f : ℕ → ℝ) (n k : ℕ) : Prop :=
  1 ≤ k ∧ k ≤ n ∧ (∀ j, 1 ≤ j → j ≤ n → f j ≤ f k) ∧ (∀ j, k < j → j ≤ n → f j < f k)

theorem isFirstArgmax_iff_neg (f : ℕ → ℝ) (n k : ℕ) :
    IsFirstArgmax f n k ↔ IsFirstArgmin (fun j => - f j) n k := by
  simp only [IsFirstArgmax, IsFirstArgmin, neg_le_neg_iff, neg_lt_neg_iff]
theorem isLastArgmax_iff_neg (f : ℕ → ℝ) (n k : ℕ) :
    IsLastArgmax f n k ↔ IsLastArgmin (fun j => - f j) n k := by
  simp only [IsLastArgmax, IsLastArgmin, neg_le_neg_iff, neg_lt_neg_iff]

theorem isFirstArgmin_one (f : ℕ → ℝ) : IsFirstArgmin f 1 1 :=
  ⟨le_refl _, le_refl _, fun j h1 h2 => by have : j = 1 := by omega
                                           subst this; exact le_refl _, fun j h1 h2 => by omega⟩
theorem isLastArgmin_one (f : ℕ → ℝ) : IsLastArgmin f 1 1 :=
  ⟨le_refl _, le_refl _, fun j h1 h2 => by have : j = 1 := by omega
                                           subst this; exact le_refl _, fun j h1 h2 => by omega⟩

/-- strict update rule (`<`) keeps the FIRST minimiser -/
theorem isFirstArgmin_step (f : ℕ → ℝ) (n k : ℕ) (h : IsFirstArgmin f n k) :
    IsFirstArgmin f (n + 1) (if f (n + 1) < f k then n + 1 else k) := by
  obtain ⟨h1, h2, h3, h4⟩ := h
  split
  · rename_i hlt
    refine ⟨by omega, le_refl _, fun j hj1 hj2 => ?_, fun j hj1 hj2 => ?_⟩
    · rcases Nat.lt_or_ge j (n + 1) with hj | hj
      · exact (hlt.trans_le (h3 j hj1 (by omega))).le
      · have : j = n + 1 := by omega
        subst this; exact le_refl _
    · exact hlt.trans_le (h3 j hj1 (by omega))
  · rename_i hnlt
    refine ⟨h1, by omega, fun j hj1 hj2 => ?_, h4⟩
    rcases Nat.lt_or_ge j (n + 1) with hj | hj
    · exact h3 j hj1 (by omega)
    · have : j = n + 1 := by omega
      subst this; exact not_lt.mp hnlt

/-- non-strict update rule (`≤`) keeps the LAST minimiser -/
theorem isLastArgmin_step (f : ℕ → ℝ) (n k : ℕ) (h : IsLastArgmin f n k) :
    IsLastArgmin f (n + 1) (if f (n + 1) ≤ f k then n + 1 else k) := by
  obtain ⟨h1, h2, h3, h4⟩ := h
  split
  · rename_i hle
    refine ⟨by omega, le_refl _, fun j hj1 hj2 => ?_, fun j hj1 hj2 => by omega⟩
    rcases Nat.lt_or_ge j (n + 1) with hj | hj
    · exact hle.trans (h3 j hj1 (by omega))
    · have : j = n + 1 := by omega
      subst this; exact le_refl _
  · rename_i hnle
    refine ⟨h1, by omega, fun j hj1 hj2 => ?_, fun j hj1 hj2 => ?_⟩
    · rcases Nat.lt_or_ge j (n + 1) with hj | hj
      · exact h3 j hj1 (by omega)
      · have : j = n + 1 := by omega
        subst this; exact (not_le.mp hnle).le
    · rcases Nat.lt_or_ge j (n + 1) with hj | hj
      · exact h4 j hj1 (by omega)
      · have : j = n + 1 := by omega
        subst this; exact not_le.mp hnle

theorem isFirstArgmin_congr {f g : ℕ → ℝ} {n k : ℕ} (hfg : ∀ j, 1 ≤ j → j ≤ n → f j = g j)
    (h : IsFirstArgmin f n k) : IsFirstArgmin g n k := by
  obtain ⟨h1, h2, h3, h4⟩ := h
  refine ⟨h1, h2, fun j hj1 hj2 => ?_, fun j hj1 hj2 => ?_⟩
  · rw [← hfg k h1 h2, ← hfg j hj1 hj2]; exact h3 j hj1 hj2
  · rw [← hfg k h1 h2, ← hfg j hj1 (by omega)]; exact h4 j hj1 hj2

theorem isLastArgmin_congr {f g : ℕ → ℝ} {n k : ℕ} (hfg : ∀ j, 1 ≤ j → j ≤ n → f j = g j)
    (h : IsLastArgmin f n k) : IsLastArgmin g n k := by
  obtain ⟨h1, h2, h3, h4⟩ := h
  refine ⟨h1, h2, fun j hj1 hj2 => ?_, fun j hj1 hj2 => ?_⟩
  · rw [← hfg k h1 h2, ← hfg j hj1 hj2]; exact h3 j hj1 hj2
  · rw [← hfg k h1 h2, ← hfg j (by omega) hj2]; exact h4 j hj1 hj2

theorem isFirstArgmax_congr {f g : ℕ → ℝ} {n k : ℕ} (hfg : ∀ j, 1 ≤ j → j ≤ n → f j = g j)
    (h : IsFirstArgmax f n k) : IsFirstArgmax g n k := by
  rw [isFirstArgmax_iff_neg] at h ⊢
  exact isFirstArgmin_congr (fun j h1 h2 => by simp only [hfg j h1 h2]) h

theorem isLastArgmax_congr {f g : ℕ → ℝ} {n k : ℕ} (hfg : ∀ j, 1 ≤ j → j ≤ n → f j = g j)
    (h : IsLastArgmax f n k) : IsLastArgmax g n k := by
  rw [isLastArgmax_iff_neg] at h ⊢
  exact isLastArgmin_congr (fun j h1 h2 => by simp only [hfg j h1 h2]) h

/-- the first / last minimiser (maximiser) is unique: the predicates DEFINE the index -/
theorem isFirstArgmin_unique {f : ℕ → ℝ} {n a b : ℕ} (ha : IsFirstArgmin f n a) (hb : IsFirstArgmin f n b) :
    a = b := by
  rcases Nat.lt_trichotomy a b with h | h | h
  · exact absurd (ha.2.2.1 b hb.1 hb.2.1) (not_le.mpr (hb.2.2.2 a ha.1 h))
  · exact h
  · exact absurd (hb.2.2.1 a ha.1 ha.2.1) (not_le.mpr (ha.2.2.2 b hb.1 h))

theorem isLastArgmin_unique {f : ℕ → ℝ} {n a b : ℕ} (ha : IsLastArgmin f n a) (hb : IsLastArgmin f n b) :
    a = b := by
  rcases Nat.lt_trichotomy a b with h | h | h
  · exact absurd (hb.2.2.1 a ha.1 ha.2.1) (not_le.mpr (ha.2.2.2 b h hb.2.1))
  · exact h
  · exact absurd (ha.2.2.1 b hb.1 hb.2.1) (not_le.mpr (hb.2.2.2 a h ha.2.1))

theorem isFirstArgmax_unique {f : ℕ → ℝ} {n a b : ℕ} (ha : IsFirstArgmax f n a) (hb : IsFirstArgmax f n b) :
    a = b := by
  rw [isFirstArgmax_iff_neg] at ha hb; exact isFirstArgmin_unique ha hb
theorem isLastArgmax_unique {f : ℕ → ℝ} {n a b : ℕ} (ha : IsLastArgmax f n a) (hb : IsLastArgmax f n b) :
    a = b := by
  rw [isLastArgmax_iff_neg] at ha hb; exact isLastArgmin_unique ha hb

/-- and it exists on every non-empty range -/
theorem exists_isFirstArgmin (f : ℕ → ℝ) (n : ℕ) (hn : 1 ≤ n) : ∃ k, IsFirstArgmin f n k := by
  induction n, hn using Nat.le_induction with
  | base => exact ⟨1, isFirstArgmin_one f⟩
  | succ n _ ih => obtain ⟨k, hk⟩ := ih; exact ⟨_, isFirstArgmin_step f n k hk⟩
theorem exists_isLastArgmin (f : ℕ → ℝ) (n : ℕ) (hn : 1 ≤ n) : ∃ k, IsLastArgmin f n k := by
  induction n, hn using Nat.le_induction with
  | base => exact ⟨1, isLastArgmin_one f⟩
  | succ n _ ih => obtain ⟨k, hk⟩ := ih; exact ⟨_, isLastArgmin_step f n k hk⟩
theorem exists_isFirstArgmax (f : ℕ → ℝ) (n : ℕ) (hn : 1 ≤ n) : ∃ k, IsFirstArgmax f n k := by
  obtain ⟨k, hk⟩ := exists_isFirstArgmin (fun j => - f j) n hn
  exact ⟨k, (isFirstArgmax_iff_neg f n k).mpr hk⟩
theorem exists_isLastArgmax (f : ℕ → ℝ) (n : ℕ) (hn : 1 ≤ n) : ∃ k, IsLastArgmax f n k := by
  obtain ⟨k, hk⟩ := exists_isLastArgmin (fun j => - f j) n hn
  exact ⟨k, (isLastArgmax_iff_neg f n k).mpr hk⟩

end Arg

/-! ## 1. HDDM-A: the cut points are the LAST minimiser of `mean + ε` / LAST maximiser of `mean - ε` (ℝ) -/
section ACut

/-- `mean(seg[:k]) + ε(k)` as the model computes it (incremental mean, `hoeffding_error_bound`) -/
noncomputable def upA (c : HDDMA.Cfg ℝ) (seg : List ℝ) (k : ℕ) : ℝ :=
  (meanFold (seg.take k)).mean + HDDMA.bound c k
/-- `mean(seg[:k]) - ε(k)` -/
noncomputable def dnA (c : HDDMA.Cfg ℝ) (seg : List ℝ) (k : ℕ) : ℝ :=
  (meanFold (seg.take k)).mean - HDDMA.bound c k

/-- closed forms: arithmetic mean of the first `k` values plus / minus `√(ln(1/α_d) / (2k))`.
`1 ≤ k` excludes `0/0` and `ε(0) = √(L/0)`. -/
theorem upA_closed (c : HDDMA.Cfg ℝ) (seg : List ℝ) (k : ℕ) (hk1 : 1 ≤ k) (hk : k ≤ seg.length) :
    upA c seg k = (seg.take k).sum / (k : ℝ) + Real.sqrt (Real.log (1 / c.alphaD) / (2 * (k : ℝ))) := by
  have hne : seg.take k ≠ [] := by
    intro h; have := congrArg List.length h
    rw [List.length_take, Nat.min_eq_left hk, List.length_nil] at this; omega
  rw [upA, meanFold_mean _ hne, bound_real, List.length_take, Nat.min_eq_left hk]
theorem dnA_closed (c : HDDMA.Cfg ℝ) (seg : List ℝ) (k : ℕ) (hk1 : 1 ≤ k) (hk : k ≤ seg.length) :
    dnA c seg k = (seg.take k).sum / (k : ℝ) - Real.sqrt (Real.log (1 / c.alphaD) / (2 * (k : ℝ))) := by
  have hne : seg.take k ≠ [] := by
    intro h; have := congrArg List.length h
    rw [List.length_take, Nat.min_eq_left hk, List.length_nil] at this; omega
  rw [dnA, meanFold_mean _ hne, bound_real, List.length_take, Nat.min_eq_left hk]

/-- the arg-min part of the invariant (on top of `C04.Inv`) -/
def ArgInvA (c : HDDMA.Cfg ℝ) (t : HDDMA.Test ℝ) (seg : List ℝ) : Prop :=
  seg ≠ [] → IsLastArgmin (upA c seg) seg.length t.x.n ∧
             (c.twoSided = true → IsLastArgmax (dnA c seg) seg.length t.y.n)

theorem upA_append (c : HDDMA.Cfg ℝ) (seg : List ℝ) (v : ℝ) (j : ℕ) (hj : j ≤ seg.length) :
    upA c seg j = upA c (seg ++ [v]) j := by
  rw [upA, upA, List.take_append_of_le_length hj]
theorem dnA_append (c : HDDMA.Cfg ℝ) (seg : List ℝ) (v : ℝ) (j : ℕ) (hj : j ≤ seg.length) :
    dnA c seg j = dnA c (seg ++ [v]) j := by
  rw [dnA, dnA, List.take_append_of_le_length hj]

theorem bound_cfg (aD : ℝ) (c : HDDMA.Cfg ℝ) (h : c.alphaD = aD) (k : ℕ) :
    HDDMA.bound ⟨aD, aD, false, 0⟩ k = HDDMA.bound c k := by
  subst h; rfl

/-- the new increase cut index, as one decision on `upA` -/
theorem newT_x_n (c : HDDMA.Cfg ℝ) (t : HDDMA.Test ℝ) (seg : List ℝ) (v : ℝ) (hz : t.z = meanFold seg)
    (hx : CutInv t.x seg) (hxpos : t.x.n ≠ 0) :
    (newT c t v).x.n =
      if upA c (seg ++ [v]) (seg.length + 1) ≤ upA c (seg ++ [v]) t.x.n then seg.length + 1 else t.x.n := by
  have hlen : (seg ++ [v]).length = seg.length + 1 := by simp
  have hzu : t.z.update v = meanFold (seg ++ [v]) := by rw [meanFold_append, hz]
  have hzn : (t.z.update v).n = seg.length + 1 := by rw [hzu, meanFold_n, hlen]
  have hzm : (t.z.update v).mean = (meanFold ((seg ++ [v]).take (seg.length + 1))).mean := by
    rw [← hlen, List.take_length, hzu]
  have hcm : t.x.mean = (meanFold ((seg ++ [v]).take t.x.n)).mean := by
    rw [List.take_append_of_le_length hx.2.1]; exact congrArg Mean.mean hx.1
  have key : (Num.le ((t.z.update v).mean + HDDMA.bound ⟨c.alphaD, c.alphaD, false, 0⟩ (t.z.update v).n)
      (t.x.mean + HDDMA.bound ⟨c.alphaD, c.alphaD, false, 0⟩ t.x.n) = true) ↔
      upA c (seg ++ [v]) (seg.length + 1) ≤ upA c (seg ++ [v]) t.x.n := by
    rw [RealNum.le_iff, bound_cfg c.alphaD c rfl, bound_cfg c.alphaD c rfl, hzn, hzm, hcm]; rfl
  have hx' : (newT c t v).x = newX c.alphaD t.x t.z v := rfl
  rw [hx', newX_eq]
  by_cases hc : upA c (seg ++ [v]) (seg.length + 1) ≤ upA c (seg ++ [v]) t.x.n
  · rw [if_pos (Or.inr (key.mpr hc)), if_pos hc, hzn]
  · rw [if_neg (by rintro (h | h); exact hxpos h; exact hc (key.mp h)), if_neg hc]

/-- the new decrease cut index (two-sided mode), as one decision on `dnA` -/
theorem newT_y_n (c : HDDMA.Cfg ℝ) (hts : c.twoSided = true) (t : HDDMA.Test ℝ) (seg : List ℝ) (v : ℝ)
    (hz : t.z = meanFold seg) (hy : CutInv t.y seg) (hypos : t.y.n ≠ 0) :
    (newT c t v).y.n =
      if dnA c (seg ++ [v]) t.y.n ≤ dnA c (seg ++ [v]) (seg.length + 1) then seg.length + 1 else t.y.n := by
  have hlen : (seg ++ [v]).length = seg.length + 1 := by simp
  have hzu : t.z.update v = meanFold (seg ++ [v]) := by rw [meanFold_append, hz]
  have hzn : (t.z.update v).n = seg.length + 1 := by rw [hzu, meanFold_n, hlen]
  have hzm : (t.z.update v).mean = (meanFold ((seg ++ [v]).take (seg.length + 1))).mean := by
    rw [← hlen, List.take_length, hzu]
  have hcm : t.y.mean = (meanFold ((seg ++ [v]).take t.y.n)).mean := by
    rw [List.take_append_of_le_length hy.2.1]; exact congrArg Mean.mean hy.1
  have key : (Num.le (t.y.mean - HDDMA.bound ⟨c.alphaD, c.alphaD, false, 0⟩ t.y.n)
      ((t.z.update v).mean - HDDMA.bound ⟨c.alphaD, c.alphaD, false, 0⟩ (t.z.update v).n) = true) ↔
      dnA c (seg ++ [v]) t.y.n ≤ dnA c (seg ++ [v]) (seg.length + 1) := by
    rw [RealNum.le_iff, bound_cfg c.alphaD c rfl, bound_cfg c.alphaD c rfl, hzn, hzm, hcm]; rfl
  have hy' : (newT c t v).y = newY c.alphaD t.y t.z v := by simp only [newT, hts, if_true]
  rw [hy', newY_eq]
  by_cases hc : dnA c (seg ++ [v]) t.y.n ≤ dnA c (seg ++ [v]) (seg.length + 1)
  · rw [if_pos (Or.inr (key.mpr hc)), if_pos hc, hzn]
  · rw [if_neg (by rintro (h | h); exact hypos h; exact hc (key.mp h)), if_neg hc]

theorem argInvA_newT (c : HDDMA.Cfg ℝ) (t : HDDMA.Test ℝ) (seg : List ℝ) (v : ℝ) (h : Inv c t seg)
    (ha : ArgInvA c t seg) : ArgInvA c (newT c t v) (seg ++ [v]) := by
  intro _
  obtain ⟨hz, hx, hy⟩ := h
  have hlen : (seg ++ [v]).length = seg.length + 1 := by simp
  have hzu : t.z.update v = meanFold (seg ++ [v]) := by rw [meanFold_append, hz]
  have hzn : (t.z.update v).n = seg.length + 1 := by rw [hzu, meanFold_n, hlen]
  rw [hlen]
  by_cases hs : seg = []
  · -- first value of the segment: both cuts are set to the current point
    subst hs
    have hx0 : t.x.n = 0 := by have := hx.2.1; simpa using this
    refine ⟨?_, fun hts => ?_⟩
    · have : (newT c t v).x = t.z.update v := by
        simp only [newT, newX_eq, hx0, true_or, if_true]
      rw [this, hzn]; exact isLastArgmin_one _
    · rw [if_pos hts] at hy
      have hy0 : t.y.n = 0 := by have := hy.2.1; simpa using this
      have : (newT c t v).y = t.z.update v := by
        simp only [newT, hts, if_true, newY_eq, hy0, true_or]
      rw [this, hzn]; exact (isLastArgmax_iff_neg _ _ _).mpr (isLastArgmin_one _)
  · obtain ⟨hax, hay⟩ := ha hs
    refine ⟨?_, fun hts => ?_⟩
    · have hxpos : t.x.n ≠ 0 := by have := hx.2.2 hs; omega
      have hax' : IsLastArgmin (upA c (seg ++ [v])) seg.length t.x.n :=
        isLastArgmin_congr (fun j _ hj => upA_append c seg v j hj) hax
      rw [newT_x_n c t seg v hz hx hxpos]
      exact isLastArgmin_step _ _ _ hax'
    · rw [if_pos hts] at hy
      have hay := hay hts
      have hypos : t.y.n ≠ 0 := by have := hy.2.2 hs; omega
      have hay' : IsLastArgmax (dnA c (seg ++ [v])) seg.length t.y.n :=
        isLastArgmax_congr (fun j _ hj => dnA_append c seg v j hj) hay
      rw [isLastArgmax_iff_neg] at hay' ⊢
      have hstep := isLastArgmin_step _ _ _ hay'
      rw [newT_y_n c hts t seg v hz hy hypos]
      simpa only [neg_le_neg_iff] using hstep

theorem argInvA_run (c : HDDMA.Cfg ℝ) (xs : List ℝ) :
    ArgInvA c (aRun c HDDMA.init xs).t (segment c xs) := by
  induction xs using List.reverseRecOn with
  | nil => intro h; exact absurd rfl h
  | append_singleton xs v ih =>
    have hI := hddma_spec c xs
    rw [segment_append, aRun_append, step_gen]
    by_cases hm : c.minN ≤ (aRun c HDDMA.init xs).n + 1
    · simp only [hm, if_true]
      split
      · intro h; exact absurd rfl h
      · exact argInvA_newT c _ _ v hI ih
    · simp only [hm, if_false]
      exact argInvA_newT c _ _ v hI ih

/-- **C04c.A1 (ℝ) — declarative cut points of HDDM-A, on the statistics the decision is taken on.**
After `xs` then `v` (from `init`), with `seg` = the values since the last reported drift including `v`, the cut
`x` used by the increase test of this step is the LAST `k ∈ [1, |seg|]` minimising
`mean(seg[:k]) + √(ln(1/α_d)/(2k))` (ties move the cut: the code compares with `≤`), and in two-sided mode the cut
`y` of the decrease test is the LAST maximiser of `mean(seg[:k]) - √(ln(1/α_d)/(2k))`.  The predicates determine
the index uniquely (`isLastArgmin_unique`).  `0 < α_d ≤ 1` is only there to make the displayed square root a
genuine one (`ln(1/α_d) ≥ 0`); the statement does not use it otherwise. -/
theorem hddma_cut_declarative (c : HDDMA.Cfg ℝ) (_ha0 : 0 < c.alphaD) (_ha1 : c.alphaD ≤ 1)
    (xs : List ℝ) (v : ℝ) :
    let t := newT c (aRun c HDDMA.init xs).t v
    let seg := segment c xs ++ [v]
    IsLastArgmin (fun k => (seg.take k).sum / (k : ℝ) + Real.sqrt (Real.log (1 / c.alphaD) / (2 * (k : ℝ))))
        seg.length t.x.n ∧
    (c.twoSided = true →
      IsLastArgmax (fun k => (seg.take k).sum / (k : ℝ) - Real.sqrt (Real.log (1 / c.alphaD) / (2 * (k : ℝ))))
        seg.length t.y.n) := by
  intro t seg
  have h := argInvA_newT c _ _ v (hddma_spec c xs) (argInvA_run c xs) (by simp)
  exact ⟨isLastArgmin_congr (fun j h1 h2 => upA_closed c seg j h1 h2) h.1,
    fun hts => isLastArgmax_congr (fun j h1 h2 => dnA_closed c seg j h1 h2) (h.2 hts)⟩

/-- **C04c.A1' (ℝ)** the same for the statistics STORED after any stream (non-empty current segment, i.e. the
last update did not report a drift). -/
theorem hddma_cut_declarative_state (c : HDDMA.Cfg ℝ) (_ha0 : 0 < c.alphaD) (_ha1 : c.alphaD ≤ 1)
    (xs : List ℝ) (hne : segment c xs ≠ []) :
    let t := (aRun c HDDMA.init xs).t
    let seg := segment c xs
    IsLastArgmin (fun k => (seg.take k).sum / (k : ℝ) + Real.sqrt (Real.log (1 / c.alphaD) / (2 * (k : ℝ))))
        seg.length t.x.n ∧
    (c.twoSided = true →
      IsLastArgmax (fun k => (seg.take k).sum / (k : ℝ) - Real.sqrt (Real.log (1 / c.alphaD) / (2 * (k : ℝ))))
        seg.length t.y.n) := by
  intro t seg
  have h := argInvA_run c xs hne
  exact ⟨isLastArgmin_congr (fun j h1 h2 => upA_closed c seg j h1 h2) h.1,
    fun hts => isLastArgmax_congr (fun j h1 h2 => dnA_closed c seg j h1 h2) (h.2 hts)⟩

/-! ### run-level flag rules of HDDM-A with the textbook test (ℝ) -/

/-- the textbook increase test across a cut after the first `k` values of `seg`, at level `al` -/
def incT (seg : List ℝ) (k : ℕ) (al : ℝ) : Prop := k < seg.length ∧ splitThr seg k al ≤ splitDiff seg k
/-- the textbook decrease test -/
def decT (seg : List ℝ) (k : ℕ) (al : ℝ) : Prop := k < seg.length ∧ splitThr seg k al ≤ - splitDiff seg k

theorem side_real (c : HDDMA.Cfg ℝ) (seg : List ℝ) (cut z : Mean ℝ) (hz : z = meanFold seg)
    (hc : CutInv cut seg) (hd0 : 0 < c.alphaD) (hd1 : c.alphaD ≤ 1) (hw0 : 0 < c.alphaW) (hw1 : c.alphaW ≤ 1) :
    ((HDDMA.side c cut z true).1 = true ↔ incT seg cut.n c.alphaD) ∧
    ((HDDMA.side c cut z true).2 = true ↔ ¬ incT seg cut.n c.alphaD ∧ incT seg cut.n c.alphaW) ∧
    ((HDDMA.side c cut z false).1 = true ↔ decT seg cut.n c.alphaD) ∧
    ((HDDMA.side c cut z false).2 = true ↔ ¬ decT seg cut.n c.alphaD ∧ decT seg cut.n c.alphaW) := by
  have hzn : z.n = seg.length := by rw [hz, meanFold_n]
  by_cases hlt : cut.n < seg.length
  · have hD := cut_test_textbook seg cut z hz hc hlt c.alphaD hd0 hd1
    have hW := cut_test_textbook seg cut z hz hc hlt c.alphaW hw0 hw1
    have hm : ¬ (z.n - cut.n = 0) := by omega
    simp only [side_table, hm, if_false, if_true, Bool.false_eq_true, hlt, true_and, splitThr, splitDiff,
      neg_sub, incT, decT, Bool.and_eq_true, Bool.not_eq_true', ← Bool.not_eq_true, hD.1, hD.2, hW.1, hW.2]
  · have hm : z.n - cut.n = 0 := by omega
    simp [side_table, hm, hlt, incT, decT]

/-- `check_cases` on statistics described by `Inv`, with the textbook tests -/
theorem checkCases_real (c : HDDMA.Cfg ℝ) (t : HDDMA.Test ℝ) (seg : List ℝ) (h : Inv c t seg)
    (hd0 : 0 < c.alphaD) (hd1 : c.alphaD ≤ 1) (hw0 : 0 < c.alphaW) (hw1 : c.alphaW ≤ 1) :
    ((HDDMA.checkCases c t).1 = true ↔
        incT seg t.x.n c.alphaD ∨ (c.twoSided = true ∧ decT seg t.y.n c.alphaD)) ∧
    (((HDDMA.checkCases c t).1 = false ∧ (HDDMA.checkCases c t).2 = true) ↔
        ¬ (incT seg t.x.n c.alphaD ∨ (c.twoSided = true ∧ decT seg t.y.n c.alphaD)) ∧
        (incT seg t.x.n c.alphaW ∨ (c.twoSided = true ∧ decT seg t.y.n c.alphaW))) := by
  obtain ⟨hz, hx, hy⟩ := h
  obtain ⟨x1, x2, -, -⟩ := side_real c seg t.x t.z hz hx hd0 hd1 hw0 hw1
  by_cases hts : c.twoSided = true
  · rw [if_pos hts] at hy
    obtain ⟨-, -, y1, y2⟩ := side_real c seg t.y t.z hz hy hd0 hd1 hw0 hw1
    have e : HDDMA.checkCases c t =
        ((HDDMA.side c t.x t.z true).1 || (HDDMA.side c t.y t.z false).1,
         (HDDMA.side c t.x t.z true).2 || (HDDMA.side c t.y t.z false).2) := by
      unfold HDDMA.checkCases; simp [hts]
    rw [e]
    simp only [Bool.or_eq_true, ← Bool.not_eq_true, x1, x2, y1, y2, hts, true_and]
    tauto
  · have e : HDDMA.checkCases c t = HDDMA.side c t.x t.z true := by
      unfold HDDMA.checkCases; simp [hts]
    rw [e]
    simp only [← Bool.not_eq_true, x1, x2, hts, Bool.false_eq_true, false_and, or_false]
    tauto

/-- **C04c.A2 (ℝ), end to end: when does HDDM-A report a WARNING?**  (Sibling of `C04.hddma_drift_iff_textbook`.)
After `xs` then `v` from `init`, with `seg` the segment including `v` and `x`, `y` the cuts after the cut-point
update: a warning is reported iff at least `min_num_instances` values have been seen, the textbook Hoeffding
test at level `alpha_d` detects NOTHING (neither an increase across `x` nor, in two-sided mode, a decrease across
`y`) and the test at level `alpha_w` detects an increase across `x` or (two-sided) a decrease across `y`.
`0 < alpha ≤ 1` for both levels keeps `ln(1/alpha) ≥ 0` (genuine square roots); these are the accepted ranges.
The drift rule is restated so that the two flags can be read side by side; they are exclusive. -/
theorem hddma_warning_iff_textbook (c : HDDMA.Cfg ℝ) (hd0 : 0 < c.alphaD) (hd1 : c.alphaD ≤ 1)
    (hw0 : 0 < c.alphaW) (hw1 : c.alphaW ≤ 1) (xs : List ℝ) (v : ℝ) :
    let t := newT c (aRun c HDDMA.init xs).t v
    let seg := segment c xs ++ [v]
    let s := aRun c HDDMA.init (xs ++ [v])
    (s.drift = true ↔ c.minN ≤ xs.length + 1 ∧
        (incT seg t.x.n c.alphaD ∨ (c.twoSided = true ∧ decT seg t.y.n c.alphaD))) ∧
    (s.warning = true ↔ c.minN ≤ xs.length + 1 ∧
        ¬ (incT seg t.x.n c.alphaD ∨ (c.twoSided = true ∧ decT seg t.y.n c.alphaD)) ∧
        (incT seg t.x.n c.alphaW ∨ (c.twoSided = true ∧ decT seg t.y.n c.alphaW))) ∧
    ¬ (s.drift = true ∧ s.warning = true) := by
  intro t seg s
  have hI : Inv c t seg := inv_newT c _ _ v (hddma_spec c xs)
  have hn : (aRun c HDDMA.init xs).n = xs.length := by rw [aRun_n]; exact Nat.zero_add _
  obtain ⟨k1, k2⟩ := checkCases_real c t seg hI hd0 hd1 hw0 hw1
  obtain ⟨f1, f2, f3⟩ := hddma_flags c (aRun c HDDMA.init xs) v
  refine ⟨?_, ?_, ?_⟩
  · show (aRun c HDDMA.init (xs ++ [v])).drift = true ↔ _
    rw [aRun_append, f1, hn, Bool.and_eq_true, decide_eq_true_iff]
    exact and_congr_right (fun _ => k1)
  · show (aRun c HDDMA.init (xs ++ [v])).warning = true ↔ _
    rw [aRun_append, f2, hn, Bool.and_eq_true, Bool.and_eq_true, decide_eq_true_iff, and_assoc,
      Bool.not_eq_true']
    exact and_congr_right (fun _ => k2)
  · show ¬ ((aRun c HDDMA.init (xs ++ [v])).drift = true ∧ (aRun c HDDMA.init (xs ++ [v])).warning = true)
    rw [aRun_append]; exact f3

/-- non-vacuity: the frouros defaults `alpha_d = 0.001`, `alpha_w = 0.005` -/
example : ∃ c : HDDMA.Cfg ℝ, 0 < c.alphaD ∧ c.alphaD ≤ 1 ∧ 0 < c.alphaW ∧ c.alphaW ≤ 1 ∧ c.alphaD < c.alphaW :=
  ⟨⟨1 / 1000, 1 / 200, true, 30⟩, by norm_num, by norm_num, by norm_num, by norm_num, by norm_num⟩

/-- **C04c.A3 (ℝ) — the fully declarative HDDM-A rule.**  Nothing on the right-hand sides is read from the model
state: `seg` is the stream since the last reported drift (characterised by `C04.hddma_segment_spec`), `kx` is THE
last minimiser of `mean(seg[:k]) + √(ln(1/α_d)/(2k))` over `k ∈ [1, |seg|]`, `ky` THE last maximiser of
`mean(seg[:k]) - √(ln(1/α_d)/(2k))` (both exist and are unique for the non-empty `seg`: `exists_isLastArgmin`,
`isLastArgmin_unique`; `ky` is only constrained in two-sided mode), and the tests are the textbook two-sample
Hoeffding tests `incT`/`decT` between `seg[:k]` and `seg[k:]`. -/
theorem hddma_flags_declarative (c : HDDMA.Cfg ℝ) (hd0 : 0 < c.alphaD) (hd1 : c.alphaD ≤ 1)
    (hw0 : 0 < c.alphaW) (hw1 : c.alphaW ≤ 1) (xs : List ℝ) (v : ℝ) (kx ky : ℕ) :
    let seg := segment c xs ++ [v]
    let s := aRun c HDDMA.init (xs ++ [v])
    IsLastArgmin (fun k => (seg.take k).sum / (k : ℝ) + Real.sqrt (Real.log (1 / c.alphaD) / (2 * (k : ℝ))))
        seg.length kx →
    (c.twoSided = true →
      IsLastArgmax (fun k => (seg.take k).sum / (k : ℝ) - Real.sqrt (Real.log (1 / c.alphaD) / (2 * (k : ℝ))))
        seg.length ky) →
    (s.drift = true ↔ c.minN ≤ xs.length + 1 ∧
        (incT seg kx c.alphaD ∨ (c.twoSided = true ∧ decT seg ky c.alphaD))) ∧
    (s.warning = true ↔ c.minN ≤ xs.length + 1 ∧
        ¬ (incT seg kx c.alphaD ∨ (c.twoSided = true ∧ decT seg ky c.alphaD)) ∧
        (incT seg kx c.alphaW ∨ (c.twoSided = true ∧ decT seg ky c.alphaW))) := by
  intro seg s hkx hky
  obtain ⟨cx, cy⟩ := hddma_cut_declarative c hd0 hd1 xs v
  obtain ⟨h1, h2, -⟩ := hddma_warning_iff_textbook c hd0 hd1 hw0 hw1 xs v
  have ex : (newT c (aRun c HDDMA.init xs).t v).x.n = kx := isLastArgmin_unique cx hkx
  by_cases hts : c.twoSided = true
  · have ey : (newT c (aRun c HDDMA.init xs).t v).y.n = ky := isLastArgmax_unique (cy hts) (hky hts)
    rw [ex, ey] at h1 h2
    exact ⟨h1, h2⟩
  · rw [ex] at h1 h2
    simp only [hts, Bool.false_eq_true, false_and, or_false] at h1 h2 ⊢
    exact ⟨h1, h2⟩

/-- non-vacuity of `hddma_flags_declarative`: the two indices exist for every stream -/
example (c : HDDMA.Cfg ℝ) (xs : List ℝ) (v : ℝ) :
    ∃ kx ky,
      IsLastArgmin (fun k => ((segment c xs ++ [v]).take k).sum / (k : ℝ) +
        Real.sqrt (Real.log (1 / c.alphaD) / (2 * (k : ℝ)))) (segment c xs ++ [v]).length kx ∧
      IsLastArgmax (fun k => ((segment c xs ++ [v]).take k).sum / (k : ℝ) -
        Real.sqrt (Real.log (1 / c.alphaD) / (2 * (k : ℝ)))) (segment c xs ++ [v]).length ky := by
  obtain ⟨kx, hx⟩ := exists_isLastArgmin (fun k => ((segment c xs ++ [v]).take k).sum / (k : ℝ) +
        Real.sqrt (Real.log (1 / c.alphaD) / (2 * (k : ℝ)))) (segment c xs ++ [v]).length (by simp)
  obtain ⟨ky, hy⟩ := exists_isLastArgmax (fun k => ((segment c xs ++ [v]).take k).sum / (k : ℝ) -
        Real.sqrt (Real.log (1 / c.alphaD) / (2 * (k : ℝ)))) (segment c xs ++ [v]).length (by simp)
  exact ⟨kx, ky, hx, hy⟩

end ACut

/-! ## 2. HDDM-W: flag table (every carrier) -/
section WFlags
variable {α : Type} [Num α]

/-- **C04c.W1 (every carrier) — the flag rule of `HDDMW.step`.**  With `t` the statistics after `update_stats`,
`di`/`wi` the McDiarmid test `inc2` vs `inc1` at `alpha_d`/`alpha_w` and `dd`/`wd` the test `dec1` vs `dec2`
(two-sided mode only):  `drift = warm ∧ (di ∨ dd)`, `warning = warm ∧ ¬(di ∨ dd) ∧ (wi ∨ wd)` (the precedence
logic of `_check_changes` — `dd` suppressed by `di`, `wd` suppressed by `wi ∨ dd` — collapses to exactly this),
never both, none before `min_num_instances` updates, and the statistics are restarted iff drift is reported. -/
theorem hddmw_flags (c : HDDMW.Cfg α) (s : HDDMW.State α) (v : α) :
    let t := HDDMW.updateStats c s.t v
    let di := HDDMW.thr t.inc1 t.inc2 c.alphaD
    let dd := c.twoSided && HDDMW.thr t.dec2 t.dec1 c.alphaD
    let wi := HDDMW.thr t.inc1 t.inc2 c.alphaW
    let wd := c.twoSided && HDDMW.thr t.dec2 t.dec1 c.alphaW
    (HDDMW.step c s v).drift = (decide (c.minN ≤ s.n + 1) && (di || dd)) ∧
    (HDDMW.step c s v).warning = (decide (c.minN ≤ s.n + 1) && !(di || dd) && (wi || wd)) ∧
    ¬ ((HDDMW.step c s v).drift = true ∧ (HDDMW.step c s v).warning = true) ∧
    (s.n + 1 < c.minN → (HDDMW.step c s v).drift = false ∧ (HDDMW.step c s v).warning = false) ∧
    (HDDMW.step c s v).n = s.n + 1 ∧
    (HDDMW.step c s v).t = if (HDDMW.step c s v).drift then HDDMW.Test.init c.lam else t := by
  intro t di dd wi wd
  rw [wstep_eq]
  unfold HDDMW.checkChanges
  simp only [dd, wd, di, wi, t]
  generalize HDDMW.thr (HDDMW.updateStats c s.t v).inc1 (HDDMW.updateStats c s.t v).inc2 c.alphaD = a
  generalize HDDMW.thr (HDDMW.updateStats c s.t v).inc1 (HDDMW.updateStats c s.t v).inc2 c.alphaW = b
  generalize HDDMW.thr (HDDMW.updateStats c s.t v).dec2 (HDDMW.updateStats c s.t v).dec1 c.alphaD = d
  generalize HDDMW.thr (HDDMW.updateStats c s.t v).dec2 (HDDMW.updateStats c s.t v).dec1 c.alphaW = e
  by_cases hm : c.minN ≤ s.n + 1 <;> cases c.twoSided <;> cases a <;> cases b <;> cases d <;> cases e <;>
    simp [hm]

end WFlags

/-! ## 3. HDDM-W over ℝ: closed forms, declarative cut points, run-level McDiarmid rule -/
section WReal

/-- zero-initialised, un-normalised EWMA of a list: `Σ_i λ (1-λ)^(|l|-1-i) l[i]` (the exponent is an honest
subtraction: `i < |l|`) -/
noncomputable def wmean (lam : ℝ) (l : List ℝ) : ℝ :=
  ∑ i : Fin l.length, lam * (1 - lam) ^ (l.length - 1 - i) * l[i]
/-- McDiarmid's independent-bounded-condition sum after `k` values: the squared weights of the `k` values plus
the squared weight `(1-λ)^(2k)` still carried by the initial value `ibc₀ = 1` -/
noncomputable def wibc (lam : ℝ) (k : ℕ) : ℝ :=
  lam ^ 2 * ∑ i ∈ Finset.range k, ((1 - lam) ^ 2) ^ i + ((1 - lam) ^ 2) ^ k

theorem sampleFold_mean (lam : ℝ) (l : List ℝ) : (sampleFold lam l).ewma.mean = wmean lam l :=
  (hddmw_sample_spec_list lam l).1
theorem sampleFold_ibc (lam : ℝ) (l : List ℝ) : (sampleFold lam l).ibc = wibc lam l.length :=
  (hddmw_sample_spec_list lam l).2

theorem wibc_nonneg (lam : ℝ) (k : ℕ) : 0 ≤ wibc lam k := by
  unfold wibc
  have : 0 ≤ ∑ i ∈ Finset.range k, ((1 - lam) ^ 2) ^ i := Finset.sum_nonneg (fun i _ => by positivity)
  positivity

/-- recursion of `wibc` (the `SampleInfo.update` line) -/
theorem wibc_succ (lam : ℝ) (k : ℕ) : wibc lam (k + 1) = lam ^ 2 + (1 - lam) ^ 2 * wibc lam k := by
  unfold wibc
  rw [Finset.sum_range_succ' _ k, Finset.sum_congr rfl (fun i _ => pow_succ' ((1 - lam) ^ 2) i),
    ← Finset.mul_sum]
  ring
theorem wibc_zero (lam : ℝ) : wibc lam 0 = 1 := by simp [wibc]

theorem mcBound_real (ibc al : ℝ) : HDDMW.mcBound ibc al = Real.sqrt (ibc * Real.log (1 / al) / 2) := by
  simp [HDDMW.mcBound]

/-- `ewma(seg[:j]) + ε_λ(j)` with `ε_λ(j) = √(ibc(j) · ln(1/λ) / 2)`: the quantity whose running minimum is
`incCut`.  NOTE the confidence of this bound is `λ` (`update_stats(value, alpha=self.config.lambda_)`), not
`alpha_d` — the model follows the code. -/
noncomputable def upW (lam : ℝ) (seg : List ℝ) (j : ℕ) : ℝ :=
  wmean lam (seg.take j) + Real.sqrt (wibc lam j * Real.log (1 / lam) / 2)
/-- `ewma(seg[:j]) - ε_λ(j)`: the quantity whose running maximum is `decCut` -/
noncomputable def dnW (lam : ℝ) (seg : List ℝ) (j : ℕ) : ℝ :=
  wmean lam (seg.take j) - Real.sqrt (wibc lam j * Real.log (1 / lam) / 2)

theorem upB_closed (lam : ℝ) (seg : List ℝ) (j : ℕ) (hj : j ≤ seg.length) :
    upB lam (sampleFold lam (seg.take j)) = upW lam seg j := by
  rw [upB, upW, sampleFold_mean, sampleFold_ibc, mcBound_real, List.length_take, Nat.min_eq_left hj]
theorem dnB_closed (lam : ℝ) (seg : List ℝ) (j : ℕ) (hj : j ≤ seg.length) :
    dnB lam (sampleFold lam (seg.take j)) = dnW lam seg j := by
  rw [dnB, dnW, sampleFold_mean, sampleFold_ibc, mcBound_real, List.length_take, Nat.min_eq_left hj]

/-- what `(inc1, inc2, incCut)` / `(dec1, dec2, decCut)` are, with the cut position characterised: it is the
FIRST minimiser over `[1, |seg|]` of `key (bnd (statistics of seg[:j]))` (`key = id`, `bnd = mean + ε` for the
increase side; `key = -·`, `bnd = mean - ε` for the decrease side, i.e. the first maximiser) -/
def SideArg (lam : ℝ) (bnd : HDDMW.Sample ℝ → ℝ) (key : ℝ → ℝ) (s1 s2 : HDDMW.Sample ℝ) (cutv : Option ℝ)
    (seg : List ℝ) : Prop :=
  (seg = [] → cutv = none) ∧
  (seg ≠ [] → ∃ k, IsFirstArgmin (fun j => key (bnd (sampleFold lam (seg.take j)))) seg.length k ∧
     s1 = sampleFold lam (seg.take k) ∧ s2 = sampleFold lam (seg.drop k) ∧ cutv = some (bnd s1))

theorem sideArg_nil (lam : ℝ) (bnd : HDDMW.Sample ℝ → ℝ) (key : ℝ → ℝ) (s1 s2 : HDDMW.Sample ℝ) :
    SideArg lam bnd key s1 s2 none [] := ⟨fun _ => rfl, fun h => absurd rfl h⟩

theorem sideArg_step (lam : ℝ) (bnd : HDDMW.Sample ℝ → ℝ) (key : ℝ → ℝ) (s1 s2 : HDDMW.Sample ℝ)
    (cutv : Option ℝ) (seg : List ℝ) (v : ℝ) (h : SideArg lam bnd key s1 s2 cutv seg) (cond : Bool)
    (hnone : cutv = none → cond = true)
    (hsome : ∀ cp, cutv = some cp → (cond = true ↔ key (bnd (sampleFold lam (seg ++ [v]))) < key cp)) :
    SideArg lam bnd key (if cond then sampleFold lam (seg ++ [v]) else s1)
      (if cond then HDDMW.Sample.init lam else HDDMW.Sample.update lam s2 v)
      (if cond then some (bnd (sampleFold lam (seg ++ [v]))) else cutv) (seg ++ [v]) := by
  refine ⟨fun hs => by simp at hs, fun _ => ?_⟩
  have hlen : (seg ++ [v]).length = seg.length + 1 := by simp
  by_cases hs : seg = []
  · subst hs
    have hc : cond = true := hnone (h.1 rfl)
    subst hc
    refine ⟨1, ?_, ?_, ?_, ?_⟩
    · simpa using isFirstArgmin_one _
    · simp
    · simp [sampleFold]
    · simp
  · obtain ⟨k, hk, e1, e2, e3⟩ := h.2 hs
    have hkle : k ≤ seg.length := hk.2.1
    have hk' : IsFirstArgmin (fun j => key (bnd (sampleFold lam ((seg ++ [v]).take j)))) seg.length k :=
      isFirstArgmin_congr (fun j _ hj => by simp only [List.take_append_of_le_length hj]) hk
    have hstep := isFirstArgmin_step _ _ _ hk'
    have hfull : (seg ++ [v]).take (seg.length + 1) = seg ++ [v] := by rw [← hlen, List.take_length]
    have hfk : (seg ++ [v]).take k = seg.take k := List.take_append_of_le_length hkle
    simp only [hfull, hfk, ← e1] at hstep
    have hiff := hsome _ e3
    rw [hlen]
    cases cond
    · have hn : ¬ key (bnd (sampleFold lam (seg ++ [v]))) < key (bnd s1) := fun hh => by
        have := hiff.mpr hh; cases this
      rw [if_neg hn] at hstep
      simp only [Bool.false_eq_true, if_false]
      refine ⟨k, hstep, by rw [hfk]; exact e1, ?_, e3⟩
      rw [List.drop_append_of_le_length hkle, sampleFold_append, e2]
    · have hy : key (bnd (sampleFold lam (seg ++ [v]))) < key (bnd s1) := hiff.mp rfl
      rw [if_pos hy] at hstep
      simp only [if_true]
      refine ⟨seg.length + 1, hstep, by rw [hfull], ?_, by first | rfl | trivial⟩
      rw [← hlen, List.drop_length]; rfl

/-- invariant of the HDDM-W statistics w.r.t. the current segment, cut positions characterised (ℝ) -/
def WArg (c : HDDMW.Cfg ℝ) (t : HDDMW.Test ℝ) (seg : List ℝ) : Prop :=
  t.total = sampleFold c.lam seg ∧
  SideArg c.lam (upB c.lam) id t.inc1 t.inc2 t.incCut seg ∧
  (c.twoSided = true → SideArg c.lam (dnB c.lam) (fun x => -x) t.dec1 t.dec2 t.decCut seg)

theorem warg_init (c : HDDMW.Cfg ℝ) : WArg c (HDDMW.Test.init c.lam) [] :=
  ⟨rfl, sideArg_nil _ _ _ _ _, fun _ => sideArg_nil _ _ _ _ _⟩

theorem warg_updateStats (c : HDDMW.Cfg ℝ) (t : HDDMW.Test ℝ) (seg : List ℝ) (v : ℝ) (h : WArg c t seg) :
    WArg c (HDDMW.updateStats c t v) (seg ++ [v]) := by
  obtain ⟨htot, hinc, hdec⟩ := h
  have htot' : HDDMW.Sample.update c.lam t.total v = sampleFold c.lam (seg ++ [v]) := by
    rw [sampleFold_append, htot]
  rw [updateStats_gen]
  by_cases hts : c.twoSided = true
  · rw [if_pos hts, decPart_fields, incPart_fields]
    simp only [htot']
    refine ⟨rfl, ?_, fun _ => ?_⟩
    · refine sideArg_step c.lam (upB c.lam) id t.inc1 t.inc2 t.incCut seg v hinc _ (fun hn => by rw [hn]) ?_
      intro cp hcp
      rw [hcp]; simp only [RealNum.lt_iff, id]
    · refine sideArg_step c.lam (dnB c.lam) (fun x => -x) t.dec1 t.dec2 t.decCut seg v (hdec hts) _
        (fun hn => by rw [hn]) ?_
      intro cp hcp
      rw [hcp]; simp only [RealNum.gt_iff, neg_lt_neg_iff]
  · rw [if_neg hts, incPart_fields]
    simp only [htot']
    refine ⟨rfl, ?_, fun h => absurd h hts⟩
    refine sideArg_step c.lam (upB c.lam) id t.inc1 t.inc2 t.incCut seg v hinc _ (fun hn => by rw [hn]) ?_
    intro cp hcp
    rw [hcp]; simp only [RealNum.lt_iff, id]

theorem warg_run (c : HDDMW.Cfg ℝ) (xs : List ℝ) :
    WArg c (wRun c (HDDMW.init c) xs).t (wsegment c xs) := by
  induction xs using List.reverseRecOn with
  | nil => exact warg_init c
  | append_singleton xs v ih =>
    rw [wsegment_append, wRun_append, wstep_eq]
    by_cases hm : c.minN ≤ (wRun c (HDDMW.init c) xs).n + 1
    · simp only [hm, if_true]
      split
      · exact warg_init c
      · exact warg_updateStats c _ _ v ih
    · simp only [hm, if_false]
      exact warg_updateStats c _ _ v ih

/-- **C04c.W2 (ℝ) — the HDDM-W statistics, with declarative cut points.**  After `xs` then `v` from `init`
(statistics after `update_stats`, on which the decision of this step is taken), with `seg` the values since the
last reported drift including `v` (`C04.hddmw_segment_spec`):  `total` is the `SampleInfo` fold of `seg`; `inc1` is
the fold of `seg[:k]` and `inc2` the fold — restarted from `SampleInfo()`, i.e. EWMA `0`, ibc `1` — of `seg[k:]`,
where `k` is THE FIRST minimiser over `[1, |seg|]` of `upW λ seg j = ewma(seg[:j]) + √(ibc(j)·ln(1/λ)/2)` (strict `<`
in the code ⇒ ties keep the earlier cut); in two-sided mode `dec1`, `dec2` likewise with the FIRST maximiser of
`dnW λ seg j = ewma(seg[:j]) - √(ibc(j)·ln(1/λ)/2)`.  No hypothesis is needed for the equalities; for `0 < λ ≤ 1`
the radicands are non-negative (`upW_radicand_nonneg`). -/
theorem hddmw_cut_declarative (c : HDDMW.Cfg ℝ) (xs : List ℝ) (v : ℝ) :
    let t := HDDMW.updateStats c (wRun c (HDDMW.init c) xs).t v
    let seg := wsegment c xs ++ [v]
    t.total = sampleFold c.lam seg ∧
    (∃ k, IsFirstArgmin (upW c.lam seg) seg.length k ∧
        t.inc1 = sampleFold c.lam (seg.take k) ∧ t.inc2 = sampleFold c.lam (seg.drop k)) ∧
    (c.twoSided = true →
      ∃ k, IsFirstArgmax (dnW c.lam seg) seg.length k ∧
        t.dec1 = sampleFold c.lam (seg.take k) ∧ t.dec2 = sampleFold c.lam (seg.drop k)) := by
  intro t seg
  obtain ⟨h1, h2, h3⟩ := warg_updateStats c _ _ v (warg_run c xs)
  have hne : seg ≠ [] := by simp [seg]
  refine ⟨h1, ?_, fun hts => ?_⟩
  · obtain ⟨k, hk, e1, e2, -⟩ := h2.2 hne
    exact ⟨k, isFirstArgmin_congr (fun j _ hj => by simp only [id]; exact upB_closed c.lam seg j hj) hk, e1, e2⟩
  · obtain ⟨k, hk, e1, e2, -⟩ := (h3 hts).2 hne
    refine ⟨k, ?_, e1, e2⟩
    rw [isFirstArgmax_iff_neg]
    exact isFirstArgmin_congr (fun j _ hj => congrArg Neg.neg (dnB_closed c.lam seg j hj)) hk

/-- the radicands of the cut bound are non-negative for `0 < λ ≤ 1` (accepted range) -/
theorem upW_radicand_nonneg (lam : ℝ) (h0 : 0 < lam) (h1 : lam ≤ 1) (j : ℕ) :
    0 ≤ wibc lam j * Real.log (1 / lam) / 2 := by
  have hL : 0 ≤ Real.log (1 / lam) := Real.log_nonneg (by rw [le_div_iff₀ h0]; linarith)
  have := wibc_nonneg lam j
  positivity

/-- McDiarmid threshold between the statistics of `seg[:k]` and of `seg[k:]` (`n = |seg|`) at level `al` -/
noncomputable def mcdThr (lam : ℝ) (n k : ℕ) (al : ℝ) : ℝ :=
  Real.sqrt ((wibc lam k + wibc lam (n - k)) * Real.log (1 / al) / 2)
/-- McDiarmid increase test across the cut `k`: `ewma(seg[k:]) - ewma(seg[:k]) > threshold` (strict, as in the code) -/
def mcdInc (lam : ℝ) (seg : List ℝ) (k : ℕ) (al : ℝ) : Prop :=
  mcdThr lam seg.length k al < wmean lam (seg.drop k) - wmean lam (seg.take k)
/-- McDiarmid decrease test across the cut `k` -/
def mcdDec (lam : ℝ) (seg : List ℝ) (k : ℕ) (al : ℝ) : Prop :=
  mcdThr lam seg.length k al < wmean lam (seg.take k) - wmean lam (seg.drop k)

theorem thr_closed (lam : ℝ) (seg : List ℝ) (k : ℕ) (hk : k ≤ seg.length) (al : ℝ) :
    (HDDMW.thr (sampleFold lam (seg.take k)) (sampleFold lam (seg.drop k)) al = true ↔ mcdInc lam seg k al) ∧
    (HDDMW.thr (sampleFold lam (seg.drop k)) (sampleFold lam (seg.take k)) al = true ↔ mcdDec lam seg k al) := by
  constructor
  · rw [hddmw_thr_spec, sampleFold_mean, sampleFold_mean, sampleFold_ibc, sampleFold_ibc, List.length_take,
      List.length_drop, Nat.min_eq_left hk]
    rfl
  · rw [hddmw_thr_spec, sampleFold_mean, sampleFold_mean, sampleFold_ibc, sampleFold_ibc, List.length_take,
      List.length_drop, Nat.min_eq_left hk, add_comm (wibc lam (seg.length - k))]
    rfl

/-- **C04c.W3 (ℝ), end to end: when does HDDM-W report drift / warning?**  Feed `xs` then `v` from `init`; let
`seg` be the values since the last reported drift including `v`, `ki` THE first minimiser of `upW λ seg` on
`[1, |seg|]` and (two-sided mode) `kd` THE first maximiser of `dnW λ seg` (both exist and are unique; `kd` is only
constrained in two-sided mode).  Then
* drift ⇔ at least `min_num_instances` values seen ∧ (McDiarmid increase test across `ki` at `alpha_d` ∨
  two-sided ∧ McDiarmid decrease test across `kd` at `alpha_d`);
* warning ⇔ warm ∧ no drift condition ∧ (increase test at `alpha_w` ∨ two-sided ∧ decrease test at `alpha_w`);
* never both.
All tests are in closed form: `wmean` (zero-initialised EWMA sum), `wibc` (squared-weight sum), strict `>`.
The `|seg| - k` inside `mcdThr` is an honest subtraction (`ki, kd ≤ |seg|` is part of the arg-min predicates).
Hypotheses `0 < alpha_d ≤ 1`, `0 < alpha_w ≤ 1` (the accepted ranges) are used only for the first conjunct — every
radicand is non-negative, so no `Real.sqrt (negative) = 0` is involved; the equivalences hold for the model as is. -/
theorem hddmw_flags_declarative (c : HDDMW.Cfg ℝ) (hd0 : 0 < c.alphaD) (hd1 : c.alphaD ≤ 1)
    (hw0 : 0 < c.alphaW) (hw1 : c.alphaW ≤ 1) (xs : List ℝ) (v : ℝ) (ki kd : ℕ) :
    let seg := wsegment c xs ++ [v]
    let s := wRun c (HDDMW.init c) (xs ++ [v])
    IsFirstArgmin (upW c.lam seg) seg.length ki →
    (c.twoSided = true → IsFirstArgmax (dnW c.lam seg) seg.length kd) →
    (∀ k, 0 ≤ (wibc c.lam k + wibc c.lam (seg.length - k)) * Real.log (1 / c.alphaD) / 2 ∧
          0 ≤ (wibc c.lam k + wibc c.lam (seg.length - k)) * Real.log (1 / c.alphaW) / 2) ∧
    (s.drift = true ↔ c.minN ≤ xs.length + 1 ∧
        (mcdInc c.lam seg ki c.alphaD ∨ (c.twoSided = true ∧ mcdDec c.lam seg kd c.alphaD))) ∧
    (s.warning = true ↔ c.minN ≤ xs.length + 1 ∧
        ¬ (mcdInc c.lam seg ki c.alphaD ∨ (c.twoSided = true ∧ mcdDec c.lam seg kd c.alphaD)) ∧
        (mcdInc c.lam seg ki c.alphaW ∨ (c.twoSided = true ∧ mcdDec c.lam seg kd c.alphaW))) ∧
    ¬ (s.drift = true ∧ s.warning = true) := by
  intro seg s hki hkd
  refine ⟨fun k => ?_, ?_⟩
  · have hLd : 0 ≤ Real.log (1 / c.alphaD) := Real.log_nonneg (by rw [le_div_iff₀ hd0]; linarith)
    have hLw : 0 ≤ Real.log (1 / c.alphaW) := Real.log_nonneg (by rw [le_div_iff₀ hw0]; linarith)
    have := wibc_nonneg c.lam k
    have := wibc_nonneg c.lam (seg.length - k)
    constructor <;> positivity
  obtain ⟨-, ⟨k1, hk1, i1, i2⟩, hdec⟩ := hddmw_cut_declarative c xs v
  have ek : k1 = ki := isFirstArgmin_unique hk1 hki
  subst ek
  have hn : (wRun c (HDDMW.init c) xs).n = xs.length := by rw [wRun_n]; exact Nat.zero_add _
  obtain ⟨f1, f2, f3, -⟩ := hddmw_flags c (wRun c (HDDMW.init c) xs) v
  have hs : s = HDDMW.step c (wRun c (HDDMW.init c) xs) v := wRun_append c _ xs v
  have tI := fun al => (thr_closed c.lam seg k1 hk1.2.1 al).1
  rw [hs]
  by_cases hts : c.twoSided = true
  · obtain ⟨k2, hk2, d1, d2⟩ := hdec hts
    have ek : k2 = kd := isFirstArgmax_unique hk2 (hkd hts)
    subst ek
    have tD := fun al => (thr_closed c.lam seg k2 hk2.2.1 al).2
    refine ⟨?_, ?_, f3⟩
    · rw [f1, hn, i1, i2, d1, d2]
      simp only [Bool.and_eq_true, Bool.or_eq_true, decide_eq_true_iff, hts, true_and]
      rw [tI, tD]
    · rw [f2, hn, i1, i2, d1, d2]
      simp only [Bool.and_eq_true, Bool.or_eq_true, decide_eq_true_iff, hts, true_and, Bool.not_eq_true',
        ← Bool.not_eq_true, and_assoc]
      rw [tI, tD, tI, tD]
  · have hf : c.twoSided = false := by simpa using hts
    refine ⟨?_, ?_, f3⟩
    · rw [f1, hn, i1, i2]
      simp only [Bool.and_eq_true, Bool.or_eq_true, decide_eq_true_iff, hf, Bool.false_and, Bool.false_eq_true,
        false_and, or_false]
      rw [tI]
    · rw [f2, hn, i1, i2]
      simp only [Bool.and_eq_true, Bool.or_eq_true, decide_eq_true_iff, hf, Bool.false_and, Bool.false_eq_true,
        false_and, or_false, Bool.not_eq_true', ← Bool.not_eq_true, and_assoc]
      rw [tI, tI]

/-- non-vacuity of `hddmw_flags_declarative`: the frouros defaults, and the two indices exist for every stream -/
example : ∃ c : HDDMW.Cfg ℝ, 0 < c.alphaD ∧ c.alphaD ≤ 1 ∧ 0 < c.alphaW ∧ c.alphaW ≤ 1 ∧ c.alphaD < c.alphaW ∧
    0 < c.lam ∧ c.lam ≤ 1 :=
  ⟨⟨1 / 1000, 1 / 200, true, 1 / 20, 30⟩, by norm_num, by norm_num, by norm_num, by norm_num, by norm_num,
    by norm_num, by norm_num⟩
example (c : HDDMW.Cfg ℝ) (xs : List ℝ) (v : ℝ) :
    ∃ ki kd, IsFirstArgmin (upW c.lam (wsegment c xs ++ [v])) (wsegment c xs ++ [v]).length ki ∧
             IsFirstArgmax (dnW c.lam (wsegment c xs ++ [v])) (wsegment c xs ++ [v]).length kd := by
  obtain ⟨ki, hi⟩ := exists_isFirstArgmin (upW c.lam (wsegment c xs ++ [v])) (wsegment c xs ++ [v]).length (by simp)
  obtain ⟨kd, hd⟩ := exists_isFirstArgmax (dnW c.lam (wsegment c xs ++ [v])) (wsegment c xs ++ [v]).length (by simp)
  exact ⟨ki, kd, hi, hd⟩

end WReal

/-! ## 4. HDDM-W on the block stream `0^n 1^j` (ℝ): exact delay, existence, and the drop asymmetry -/
section Rise
open Frouros.C04b (riseStream dropStream take_riseStream riseStream_succ)

theorem sampleFold_weights (lam : ℝ) (l : List ℝ) :
    (sampleFold lam l).ewma.alpha = lam ∧ (sampleFold lam l).ewma.oneMinus = 1 - lam := by
  induction l using List.reverseRecOn with
  | nil => simp [sampleFold, HDDMW.Sample.init, EWMA.init]
  | append_singleton l v ih => rw [sampleFold_append]; simpa [HDDMW.Sample.update, EWMA.update] using ih

/-- the EWMA recursion, on the closed form -/
theorem wmean_append (lam : ℝ) (l : List ℝ) (v : ℝ) :
    wmean lam (l ++ [v]) = lam * v + (1 - lam) * wmean lam l := by
  rw [← sampleFold_mean, ← sampleFold_mean, sampleFold_append]
  obtain ⟨h1, h2⟩ := sampleFold_weights lam l
  simp [HDDMW.Sample.update, EWMA.update, h1, h2]

theorem wmean_nil (lam : ℝ) : wmean lam [] = 0 := by simp [wmean]

theorem wmean_append_ones (lam : ℝ) (l : List ℝ) (m : ℕ) :
    wmean lam (l ++ List.replicate m 1) = 1 - (1 - lam) ^ m + (1 - lam) ^ m * wmean lam l := by
  induction m with
  | zero => simp
  | succ m ih => rw [List.replicate_succ', ← List.append_assoc, wmean_append, ih]; ring

theorem wmean_zeros (lam : ℝ) (a : ℕ) : wmean lam (List.replicate a 0) = 0 := by
  induction a with
  | zero => simp [wmean]
  | succ a ih => rw [List.replicate_succ', wmean_append, ih]; ring

theorem wmean_rise (lam : ℝ) (a b : ℕ) : wmean lam (riseStream a b) = 1 - (1 - lam) ^ b := by
  rw [riseStream, wmean_append_ones, wmean_zeros]; ring

theorem wmean_ones (lam : ℝ) (b : ℕ) : wmean lam (List.replicate b 1) = 1 - (1 - lam) ^ b := by
  have := wmean_append_ones lam [] b
  rw [List.nil_append, wmean_nil] at this
  rw [this]; ring

/-- the limit `λ/(2-λ)` of the ibc sum -/
noncomputable def wstar (lam : ℝ) : ℝ := lam / (2 - lam)

/-- geometric closed form of the ibc sum: `ibc(k) = w* + (1 - w*) (1-λ)^(2k)`, `w* = λ/(2-λ)`
(`λ ≠ 2` excludes the division by zero in `w*`) -/
theorem wibc_closed (lam : ℝ) (h : lam ≠ 2) (k : ℕ) :
    wibc lam k = wstar lam + (1 - wstar lam) * ((1 - lam) ^ 2) ^ k := by
  have h2 : (2 - lam) ≠ 0 := sub_ne_zero.mpr (Ne.symm h)
  induction k with
  | zero => rw [wibc_zero]; ring
  | succ k ih =>
    rw [wibc_succ, ih, pow_succ, wstar]
    field_simp
    ring

theorem wstar_bounds (lam : ℝ) (h0 : 0 < lam) (h1 : lam < 1) : 0 < wstar lam ∧ wstar lam < 1 := by
  unfold wstar
  have : 0 < 2 - lam := by linarith
  refine ⟨by positivity, ?_⟩
  rw [div_lt_one this]; linarith

theorem wibc_gt_wstar (lam : ℝ) (h0 : 0 < lam) (h1 : lam < 1) (k : ℕ) : wstar lam < wibc lam k := by
  rw [wibc_closed lam (by linarith)]
  have := (wstar_bounds lam h0 h1).2
  have hq : 0 < ((1 - lam) ^ 2) ^ k := by
    have : 0 < 1 - lam := by linarith
    positivity
  nlinarith

theorem wibc_succ_lt (lam : ℝ) (h0 : 0 < lam) (h1 : lam < 1) (k : ℕ) : wibc lam (k + 1) < wibc lam k := by
  rw [wibc_closed lam (by linarith), wibc_closed lam (by linarith), pow_succ]
  have := (wstar_bounds lam h0 h1).2
  have h1l : 0 < 1 - lam := by linarith
  have hq : 0 < ((1 - lam) ^ 2) ^ k := by positivity
  have hq1 : (1 - lam) ^ 2 < 1 := by nlinarith
  nlinarith [mul_pos (sub_pos.mpr this) hq]

theorem wibc_strictAnti (lam : ℝ) (h0 : 0 < lam) (h1 : lam < 1) : StrictAnti (wibc lam) :=
  strictAnti_nat_of_succ_lt (wibc_succ_lt lam h0 h1)

/-- every prefix ran without a reported drift -/
def Quiet (c : HDDMW.Cfg ℝ) (xs : List ℝ) : Prop :=
  ∀ p, p <+: xs → (wRun c (HDDMW.init c) p).drift = false

theorem quiet_nil (c : HDDMW.Cfg ℝ) : Quiet c [] := by
  intro p hp
  have : p = [] := List.prefix_nil.mp hp
  subst this; rfl

theorem quiet_append (c : HDDMW.Cfg ℝ) (xs : List ℝ) (v : ℝ) (h : Quiet c xs)
    (hd : (wRun c (HDDMW.init c) (xs ++ [v])).drift = false) : Quiet c (xs ++ [v]) := by
  intro p hp
  rcases List.prefix_concat_iff.mp hp with rfl | hp
  · exact hd
  · exact h p hp

theorem wsegment_of_quiet (c : HDDMW.Cfg ℝ) (xs : List ℝ) (h : Quiet c xs) : wsegment c xs = xs := by
  induction xs using List.reverseRecOn with
  | nil => rfl
  | append_singleton xs v ih =>
    rw [wsegment_append, h _ (List.prefix_refl _)]
    simp only [Bool.false_eq_true, if_false]
    rw [ih (fun p hp => h p (hp.trans (List.prefix_append xs [v])))]

/-- `hddmw_flags_declarative` on a stream that has not reported a drift yet: the segment is the whole stream -/
theorem quiet_drift_iff (c : HDDMW.Cfg ℝ) (hd0 : 0 < c.alphaD) (hd1 : c.alphaD ≤ 1)
    (hw0 : 0 < c.alphaW) (hw1 : c.alphaW ≤ 1) (xs : List ℝ) (v : ℝ) (hq : Quiet c xs) (ki kd : ℕ)
    (hki : IsFirstArgmin (upW c.lam (xs ++ [v])) (xs ++ [v]).length ki)
    (hkd : c.twoSided = true → IsFirstArgmax (dnW c.lam (xs ++ [v])) (xs ++ [v]).length kd) :
    (wRun c (HDDMW.init c) (xs ++ [v])).drift = true ↔ c.minN ≤ xs.length + 1 ∧
      (mcdInc c.lam (xs ++ [v]) ki c.alphaD ∨ (c.twoSided = true ∧ mcdDec c.lam (xs ++ [v]) kd c.alphaD)) := by
  have h := hddmw_flags_declarative c hd0 hd1 hw0 hw1 xs v ki kd
  simp only [wsegment_of_quiet c xs hq] at h
  exact (h hki hkd).2.1

theorem mcdThr_nonneg (lam : ℝ) (n k : ℕ) (al : ℝ) : 0 ≤ mcdThr lam n k al := Real.sqrt_nonneg _

/-- on an all-zero segment no McDiarmid test can fire, wherever the cuts are -/
theorem mcd_zeros (lam : ℝ) (a k : ℕ) (al : ℝ) :
    ¬ mcdInc lam (List.replicate a 0) k al ∧ ¬ mcdDec lam (List.replicate a 0) k al := by
  have h := mcdThr_nonneg lam (List.replicate a (0 : ℝ)).length k al
  simp only [mcdInc, mcdDec, List.take_replicate, List.drop_replicate, wmean_zeros, sub_self, not_lt]
  exact ⟨h, h⟩

/-- zeros phase: no drift while only zeros have been seen (any mode, any `min_num_instances`) -/
theorem quiet_zeros (c : HDDMW.Cfg ℝ) (hd0 : 0 < c.alphaD) (hd1 : c.alphaD ≤ 1)
    (hw0 : 0 < c.alphaW) (hw1 : c.alphaW ≤ 1) (a : ℕ) : Quiet c (List.replicate a 0) := by
  induction a with
  | zero => exact quiet_nil c
  | succ a ih =>
    rw [List.replicate_succ']
    refine quiet_append c _ 0 ih ?_
    obtain ⟨ki, hki⟩ := exists_isFirstArgmin (upW c.lam (List.replicate a 0 ++ [0]))
      (List.replicate a (0 : ℝ) ++ [0]).length (by simp)
    obtain ⟨kd, hkd⟩ := exists_isFirstArgmax (dnW c.lam (List.replicate a 0 ++ [0]))
      (List.replicate a (0 : ℝ) ++ [0]).length (by simp)
    have h := quiet_drift_iff c hd0 hd1 hw0 hw1 _ 0 ih ki kd hki (fun _ => hkd)
    rw [← List.replicate_succ'] at h
    have hz := fun k => mcd_zeros c.lam (a + 1) k c.alphaD
    rw [← Bool.not_eq_true, ← List.replicate_succ', h]
    rintro ⟨-, h' | ⟨-, h'⟩⟩
    · exact (hz ki).1 h'
    · exact (hz kd).2 h'

/-- **hypothesis of the rise theorems**: the increase cut stays at the end of the zeros at every ones-step `m`:
`ε_λ(n) ≤ (1 - (1-λ)^m) + ε_λ(n+m)` with `ε_λ(t) = √(ibc(t)·ln(1/λ)/2)`.  It FAILS for small `n`
(e.g. `λ = 0.05`, `n = 1`: `ε_λ(1) ≈ 1.1643 > 0.05 + ε_λ(2) ≈ 1.1578`, the cut moves onto the first `1`);
`cutStays_of_le` gives a closed sufficient condition. -/
def CutStays (lam : ℝ) (n : ℕ) : Prop :=
  ∀ m, 1 ≤ m → Real.sqrt (wibc lam n * Real.log (1 / lam) / 2) ≤
    (1 - (1 - lam) ^ m) + Real.sqrt (wibc lam (n + m) * Real.log (1 / lam) / 2)

/-- the McDiarmid increase test at ones-step `m` of `0^n 1^m` with the cut at the end of the zeros:
`1 - (1-λ)^m > √((ibc(n) + ibc(m)) · ln(1/α_d) / 2)` -/
def WTest (lam : ℝ) (n m : ℕ) (al : ℝ) : Prop :=
  Real.sqrt ((wibc lam n + wibc lam m) * Real.log (1 / al) / 2) < 1 - (1 - lam) ^ m

/-- `js` is the first ones-step at which the test fires -/
def IsFirstW (lam : ℝ) (n : ℕ) (al : ℝ) (js : ℕ) : Prop :=
  1 ≤ js ∧ WTest lam n js al ∧ ∀ m, 1 ≤ m → m < js → ¬ WTest lam n m al

theorem log_inv_pos (lam : ℝ) (h0 : 0 < lam) (h1 : lam < 1) : 0 < Real.log (1 / lam) :=
  Real.log_pos (one_lt_one_div h0 h1)

theorem upW_rise (lam : ℝ) (n m j : ℕ) :
    upW lam (riseStream n m) j =
      (1 - (1 - lam) ^ (min (j - n) m)) + Real.sqrt (wibc lam j * Real.log (1 / lam) / 2) := by
  rw [upW, take_riseStream, wmean_rise]

/-- under `CutStays` the first minimiser of `upW` along `0^n 1^m` is `n` -/
theorem rise_argmin (lam : ℝ) (h0 : 0 < lam) (h1 : lam < 1) (n m : ℕ) (hn : 1 ≤ n) (hcut : CutStays lam n) :
    IsFirstArgmin (upW lam (riseStream n m)) (n + m) n := by
  have hL := log_inv_pos lam h0 h1
  have hanti := wibc_strictAnti lam h0 h1
  have hz : ∀ j, j ≤ n → upW lam (riseStream n m) j = Real.sqrt (wibc lam j * Real.log (1 / lam) / 2) := by
    intro j hj
    rw [upW_rise, show j - n = 0 by omega]; simp
  refine ⟨hn, by omega, fun j hj1 hj2 => ?_, fun j hj1 hj2 => ?_⟩
  · rcases Nat.lt_or_ge n j with h | h
    · rw [hz n (le_refl _), upW_rise]
      have hm : min (j - n) m = j - n := Nat.min_eq_left (by omega)
      have e : n + (j - n) = j := by omega
      have h1' := hcut (j - n) (by omega)
      rw [e] at h1'
      rw [hm]; exact h1'
    · rw [hz n (le_refl _), hz j h]
      apply Real.sqrt_le_sqrt
      have := hanti.antitone h
      have : wibc lam n * Real.log (1 / lam) ≤ wibc lam j * Real.log (1 / lam) :=
        mul_le_mul_of_nonneg_right this hL.le
      linarith
  · rw [hz n (le_refl _), hz j hj2.le]
    apply Real.sqrt_lt_sqrt
    · have := wibc_nonneg lam n; positivity
    · have := hanti hj2
      have : wibc lam n * Real.log (1 / lam) < wibc lam j * Real.log (1 / lam) :=
        mul_lt_mul_of_pos_right this hL
      linarith

theorem mcdInc_rise (lam : ℝ) (n m : ℕ) (al : ℝ) :
    mcdInc lam (riseStream n m) n al ↔ WTest lam n m al := by
  have hlen : (riseStream n m).length = n + m := by simp [riseStream]
  have hd : (riseStream n m).drop n = List.replicate m 1 := by
    rw [riseStream]; exact List.drop_left' (by simp)
  have ht : (riseStream n m).take n = List.replicate n 0 := by
    rw [take_riseStream]; simp [riseStream]
  rw [mcdInc, mcdThr, hlen, hd, ht, wmean_ones, wmean_zeros, Nat.add_sub_cancel_left, sub_zero, WTest]

theorem dnW_rise (lam : ℝ) (n m j : ℕ) :
    dnW lam (riseStream n m) j =
      (1 - (1 - lam) ^ (min (j - n) m)) - Real.sqrt (wibc lam j * Real.log (1 / lam) / 2) := by
  rw [dnW, take_riseStream, wmean_rise]

/-- `ewma - ε_λ` is strictly increasing along `0^n 1^m`: its first maximiser is the current point -/
theorem rise_argmax (lam : ℝ) (h0 : 0 < lam) (h1 : lam < 1) (n m : ℕ) (hN : 1 ≤ n + m) :
    IsFirstArgmax (dnW lam (riseStream n m)) (n + m) (n + m) := by
  have hL := log_inv_pos lam h0 h1
  have hanti := wibc_strictAnti lam h0 h1
  have hr : 0 ≤ 1 - lam := by linarith
  have hr1 : 1 - lam ≤ 1 := by linarith
  have key : ∀ j, j < n + m → dnW lam (riseStream n m) j < dnW lam (riseStream n m) (n + m) := by
    intro j hj
    rw [dnW_rise, dnW_rise]
    have h1' : (1 - lam) ^ (min (n + m - n) m) ≤ (1 - lam) ^ (min (j - n) m) :=
      pow_le_pow_of_le_one hr hr1 (by omega)
    have h2' : Real.sqrt (wibc lam (n + m) * Real.log (1 / lam) / 2) <
        Real.sqrt (wibc lam j * Real.log (1 / lam) / 2) := by
      apply Real.sqrt_lt_sqrt
      · have := wibc_nonneg lam (n + m); positivity
      · have := hanti hj
        have : wibc lam (n + m) * Real.log (1 / lam) < wibc lam j * Real.log (1 / lam) :=
          mul_lt_mul_of_pos_right this hL
        linarith
    linarith
  refine ⟨hN, le_refl _, fun j _ hj2 => ?_, fun j _ hj2 => key j hj2⟩
  rcases Nat.lt_or_ge j (n + m) with h | h
  · exact (key j h).le
  · have : j = n + m := by omega
    rw [this]

/-- with the cut at the current point the decrease test compares the EWMA with a FRESH sample (EWMA `0`, ibc `1`);
for `ln(1/alpha) ≥ 2` its threshold is `≥ 1 > ewma`, so it is silent -/
theorem mcdDec_rise (lam : ℝ) (h0 : 0 < lam) (h1 : lam < 1) (n m : ℕ) (al : ℝ)
    (hL : 2 ≤ Real.log (1 / al)) : ¬ mcdDec lam (riseStream n m) (n + m) al := by
  have hlen : (riseStream n m).length = n + m := by simp [riseStream]
  have ht : (riseStream n m).take (n + m) = riseStream n m := by rw [← hlen, List.take_length]
  have hd : (riseStream n m).drop (n + m) = [] := by rw [← hlen, List.drop_length]
  have hr0 : 0 < 1 - lam := by linarith
  have hρ : 0 < (1 - lam) ^ m := by positivity
  rw [mcdDec, mcdThr, hlen, ht, hd, wmean_rise, wmean_nil, Nat.sub_self, wibc_zero, sub_zero, not_lt]
  have : (1 : ℝ) ≤ Real.sqrt ((wibc lam (n + m) + 1) * Real.log (1 / al) / 2) := by
    rw [Real.le_sqrt' (by norm_num)]
    have := wibc_nonneg lam (n + m)
    nlinarith
  linarith

/-- ones phase, any mode: on a so-far quiet `0^n 1^m`, the next `1` reports drift iff the warm-up is over and
the test `WTest` fires at ones-step `m + 1` (two-sided mode: provided `ln(1/alpha_d) ≥ 2`, which silences the
zero-initialised decrease test) -/
theorem rise_step_iff (c : HDDMW.Cfg ℝ) (hdec : c.twoSided = true → 2 ≤ Real.log (1 / c.alphaD))
    (hd0 : 0 < c.alphaD) (hd1 : c.alphaD ≤ 1)
    (hw0 : 0 < c.alphaW) (hw1 : c.alphaW ≤ 1) (hl0 : 0 < c.lam) (hl1 : c.lam < 1) (n m : ℕ) (hn : 1 ≤ n)
    (hcut : CutStays c.lam n) (hq : Quiet c (riseStream n m)) :
    (wRun c (HDDMW.init c) (riseStream n (m + 1))).drift = true ↔
      c.minN ≤ n + m + 1 ∧ WTest c.lam n (m + 1) c.alphaD := by
  have hlen : (riseStream n m).length = n + m := by simp [riseStream]
  have hlen' : (riseStream n (m + 1)).length = n + (m + 1) := by simp [riseStream]
  have harg := rise_argmin c.lam hl0 hl1 n (m + 1) hn hcut
  have hargd := rise_argmax c.lam hl0 hl1 n (m + 1) (by omega)
  have h := quiet_drift_iff c hd0 hd1 hw0 hw1 (riseStream n m) 1 hq n (n + (m + 1))
    (by rw [← riseStream_succ, hlen']; exact harg)
    (fun _ => by rw [← riseStream_succ, hlen']; exact hargd)
  rw [← riseStream_succ, hlen, mcdInc_rise] at h
  rw [h]
  refine and_congr_right (fun _ => ⟨?_, Or.inl⟩)
  rintro (h' | ⟨hts, h'⟩)
  · exact h'
  · exact absurd h' (mcdDec_rise c.lam hl0 hl1 n (m + 1) c.alphaD (hdec hts))

/-- **C04c.W4 (ℝ) `hddmw_rise_delay`, one-sided mode, and two-sided mode with `ln(1/alpha_d) ≥ 2`.**
(`alpha_d ≤ e^{-2} ≈ 0.135`, e.g. the default `0.001`: it silences the zero-initialised decrease test, which otherwise
may fire first — `hddmw_rise_exists` covers that case.)  Accepted ranges `0 < alpha_d ≤ 1`, `0 < alpha_w ≤ 1`,
`0 < λ < 1` (`λ = 1` makes every cut bound `0`: degenerate), `n ≥ 1` zeros with `min_num_instances ≤ n`, the cut
stays at the end of the zeros (`CutStays`, explicit; false for small `n`), and `js` is the first ones-step at which
`1 - (1-λ)^m > √((ibc(n) + ibc(m))·ln(1/alpha_d)/2)`.  Then on `0^n 1^k` (`k ≥ js`) no drift is reported after any
of the first `n + js - 1` values and drift is reported after value number `n + js`. -/
theorem hddmw_rise_delay (c : HDDMW.Cfg ℝ) (hdec : c.twoSided = true → 2 ≤ Real.log (1 / c.alphaD))
    (hd0 : 0 < c.alphaD) (hd1 : c.alphaD ≤ 1)
    (hw0 : 0 < c.alphaW) (hw1 : c.alphaW ≤ 1) (hl0 : 0 < c.lam) (hl1 : c.lam < 1) (n : ℕ) (hn : 1 ≤ n)
    (hmin : c.minN ≤ n) (hcut : CutStays c.lam n) (js : ℕ) (hjs : IsFirstW c.lam n c.alphaD js)
    (k : ℕ) (hk : js ≤ k) :
    (∀ t, t < n + js → (wRun c (HDDMW.init c) ((riseStream n k).take t)).drift = false) ∧
    (wRun c (HDDMW.init c) ((riseStream n k).take (n + js))).drift = true := by
  obtain ⟨hj1, hfire, hfirst⟩ := hjs
  have hq : ∀ m, m < js → Quiet c (riseStream n m) := by
    intro m
    induction m with
    | zero =>
      intro _
      have := quiet_zeros c hd0 hd1 hw0 hw1 n
      simpa [riseStream] using this
    | succ m ih =>
      intro hm
      have hqm := ih (by omega)
      rw [riseStream_succ]
      refine quiet_append c _ 1 hqm ?_
      rw [← riseStream_succ, ← Bool.not_eq_true,
        rise_step_iff c hdec hd0 hd1 hw0 hw1 hl0 hl1 n m hn hcut hqm]
      rintro ⟨-, h⟩
      exact hfirst (m + 1) (by omega) hm h
  refine ⟨fun t ht => ?_, ?_⟩
  · rw [take_riseStream]
    rcases Nat.lt_or_ge t n with h | h
    · rw [Nat.min_eq_left h.le, show t - n = 0 by omega, Nat.zero_min]
      have := quiet_zeros c hd0 hd1 hw0 hw1 t _ (List.prefix_refl _)
      simpa [riseStream] using this
    · rw [Nat.min_eq_right h, Nat.min_eq_left (by omega)]
      exact hq (t - n) (by omega) _ (List.prefix_refl _)
  · rw [take_riseStream, Nat.min_eq_right (by omega), Nat.add_sub_cancel_left, Nat.min_eq_left hk]
    obtain ⟨j, rfl⟩ : ∃ j, js = j + 1 := ⟨js - 1, by omega⟩
    rw [rise_step_iff c hdec hd0 hd1 hw0 hw1 hl0 hl1 n j hn hcut (hq j (by omega))]
    exact ⟨by omega, hfire⟩

/-- in two-sided mode the configuration is its own `wTwo` -/
theorem eq_wTwo (c : HDDMW.Cfg ℝ) (hts : c.twoSided = true) : c = wTwo c := by
  rcases c with ⟨aD, aW, ts, lam, mn⟩
  simp only at hts; subst hts; rfl
theorem eq_wOne (c : HDDMW.Cfg ℝ) (hts : c.twoSided = false) : c = wOne c := by
  rcases c with ⟨aD, aW, ts, lam, mn⟩
  simp only at hts; subst hts; rfl

/-- **C04c.W5 (ℝ) `hddmw_rise_exists`, BOTH modes: a sustained rise is eventually flagged.**  Same hypotheses as
`hddmw_rise_delay` without the mode restriction: some non-empty prefix of `0^n 1^js` ends with a reported drift,
i.e. drift is raised at or before value number `n + js`.  (In two-sided mode the decrease test — whose fresh
sample `dec2` has EWMA `0`, ibc `1` — may fire earlier for weak `alpha_d`; that is the only reason for "at or
before".  Proof: one-sided delay + `C04.hddmw_two_sided_extends_init`.) -/
theorem hddmw_rise_exists (c : HDDMW.Cfg ℝ) (hd0 : 0 < c.alphaD) (hd1 : c.alphaD ≤ 1)
    (hw0 : 0 < c.alphaW) (hw1 : c.alphaW ≤ 1) (hl0 : 0 < c.lam) (hl1 : c.lam < 1) (n : ℕ) (hn : 1 ≤ n)
    (hmin : c.minN ≤ n) (hcut : CutStays c.lam n) (js : ℕ) (hjs : IsFirstW c.lam n c.alphaD js) :
    ∃ p, p <+: riseStream n js ∧ p ≠ [] ∧ (wRun c (HDDMW.init c) p).drift = true := by
  have hone : (wRun (wOne c) (HDDMW.init (wOne c)) (riseStream n js)).drift = true := by
    have h := (hddmw_rise_delay (wOne c) (fun h => by simp [wOne] at h) hd0 hd1 hw0 hw1 hl0 hl1 n hn hmin hcut js hjs js (le_refl _)).2
    rwa [take_riseStream, Nat.min_eq_right (by omega), Nat.add_sub_cancel_left, Nat.min_self] at h
  have hne : riseStream n js ≠ [] := by
    intro h; have := congrArg List.length h
    simp [riseStream] at this; omega
  by_cases hts : c.twoSided = true
  · obtain ⟨j, rfl⟩ : ∃ j, js = j + 1 := ⟨js - 1, by have := hjs.1; omega⟩
    by_cases hq : ∀ p, p <+: riseStream n j → (wRun (wTwo c) (HDDMW.init (wTwo c)) p).drift = false
    · have h := (hddmw_two_sided_extends_init c (riseStream n j) 1 hq).2.2.1
      rw [← riseStream_succ] at h
      refine ⟨_, List.prefix_refl _, hne, ?_⟩
      rw [eq_wTwo c hts]; exact h hone
    · push Not at hq
      obtain ⟨p, hp, hd⟩ := hq
      have hd' : (wRun (wTwo c) (HDDMW.init (wTwo c)) p).drift = true := by simpa using hd
      refine ⟨p, hp.trans ⟨[1], (riseStream_succ n j).symm⟩, ?_, ?_⟩
      · rintro rfl; cases hd'
      · rw [eq_wTwo c hts]; exact hd'
  · have hf : c.twoSided = false := by simpa using hts
    refine ⟨_, List.prefix_refl _, hne, ?_⟩
    rw [eq_wOne c hf]; exact hone

/-- the limit case of the test: it fires at some ones-step iff `(ibc(n) + λ/(2-λ))·ln(1/alpha)/2 < 1` -/
theorem wTest_exists (lam al : ℝ) (h0 : 0 < lam) (h1 : lam < 1) (ha0 : 0 < al) (ha1 : al ≤ 1) (n : ℕ)
    (hcond : (wibc lam n + wstar lam) * Real.log (1 / al) / 2 < 1) : ∃ m, 1 ≤ m ∧ WTest lam n m al := by
  have hL : 0 ≤ Real.log (1 / al) := Real.log_nonneg (by rw [le_div_iff₀ ha0]; linarith)
  obtain ⟨hw0, hw1⟩ := wstar_bounds lam h0 h1
  have hwn := wibc_nonneg lam n
  set S := Real.sqrt ((wibc lam n + wstar lam) * Real.log (1 / al) / 2) with hS
  set K := Real.sqrt (Real.log (1 / al) / 2) with hK
  have hS0 : 0 ≤ S := Real.sqrt_nonneg _
  have hK0 : 0 ≤ K := Real.sqrt_nonneg _
  have hS1 : S < 1 := by rw [hS, Real.sqrt_lt' one_pos]; simpa using hcond
  have hS2 : S ^ 2 = (wibc lam n + wstar lam) * Real.log (1 / al) / 2 := Real.sq_sqrt (by positivity)
  have hK2 : K ^ 2 = Real.log (1 / al) / 2 := Real.sq_sqrt (by positivity)
  have hr0 : 0 < 1 - lam := by linarith
  have hr1 : 1 - lam < 1 := by linarith
  have hδ : 0 < (1 - S) / (1 + K) := by have : 0 < 1 - S := by linarith
                                        positivity
  obtain ⟨m0, hm0⟩ := exists_pow_lt_of_lt_one hδ hr1
  refine ⟨m0 + 1, by omega, ?_⟩
  set ρ := (1 - lam) ^ (m0 + 1) with hρ
  have hρ0 : 0 < ρ := by positivity
  have hρδ : ρ < (1 - S) / (1 + K) := by
    have : ρ ≤ (1 - lam) ^ m0 := by
      rw [hρ, pow_succ]
      have : 0 ≤ (1 - lam) ^ m0 := by positivity
      nlinarith
    linarith
  have hlt : S + ρ * K < 1 - ρ := by
    rw [lt_div_iff₀ (by positivity)] at hρδ
    nlinarith
  have hle : Real.sqrt ((wibc lam n + wibc lam (m0 + 1)) * Real.log (1 / al) / 2) ≤ S + ρ * K := by
    rw [Real.sqrt_le_left (by positivity)]
    have hq : ((1 - lam) ^ 2) ^ (m0 + 1) = ρ ^ 2 := by rw [hρ, ← pow_mul, ← pow_mul, mul_comm]
    rw [wibc_closed lam (by linarith) (m0 + 1), hq]
    have e : (S + ρ * K) ^ 2 = S ^ 2 + 2 * S * ρ * K + ρ ^ 2 * K ^ 2 := by ring
    rw [e, hS2, hK2]
    have h1 : 0 ≤ 2 * S * ρ * K := by positivity
    have h2 : (1 - wstar lam) * ρ ^ 2 * (Real.log (1 / al) / 2) ≤ ρ ^ 2 * (Real.log (1 / al) / 2) := by
      have : 0 ≤ ρ ^ 2 * (Real.log (1 / al) / 2) := by positivity
      nlinarith
    nlinarith
  exact lt_of_le_of_lt hle hlt

theorem wTest_never (lam al : ℝ) (h0 : 0 < lam) (h1 : lam < 1) (ha0 : 0 < al) (ha1 : al ≤ 1) (n : ℕ)
    (hcond : 1 ≤ (wibc lam n + wstar lam) * Real.log (1 / al) / 2) (m : ℕ) : ¬ WTest lam n m al := by
  have hL : 0 ≤ Real.log (1 / al) := Real.log_nonneg (by rw [le_div_iff₀ ha0]; linarith)
  have hgt := wibc_gt_wstar lam h0 h1 m
  have hr0 : 0 < 1 - lam := by linarith
  have hρ : 0 < (1 - lam) ^ m := by positivity
  unfold WTest
  rw [not_lt]
  have : (1 : ℝ) ≤ Real.sqrt ((wibc lam n + wibc lam m) * Real.log (1 / al) / 2) := by
    rw [Real.le_sqrt' (by norm_num)]
    have : (wibc lam n + wstar lam) * Real.log (1 / al) ≤ (wibc lam n + wibc lam m) * Real.log (1 / al) :=
      mul_le_mul_of_nonneg_right (by linarith) hL
    linarith
  linarith

/-- **C04c.W6** the first firing ones-step exists iff `(ibc(n) + λ/(2-λ))·ln(1/alpha_d)/2 < 1`
(with the frouros defaults `λ = 0.05`, `alpha_d = 0.001`, `n = 30`: `(0.0705 + 0.0256)·3.454 ≈ 0.33 < 1`) -/
theorem exists_isFirstW_iff (lam al : ℝ) (h0 : 0 < lam) (h1 : lam < 1) (ha0 : 0 < al) (ha1 : al ≤ 1) (n : ℕ) :
    (∃ js, IsFirstW lam n al js) ↔ (wibc lam n + wstar lam) * Real.log (1 / al) / 2 < 1 := by
  constructor
  · rintro ⟨js, -, hW, -⟩
    by_contra hc
    exact wTest_never lam al h0 h1 ha0 ha1 n (not_lt.mp hc) js hW
  · intro hc
    classical
    have h := wTest_exists lam al h0 h1 ha0 ha1 n hc
    exact ⟨Nat.find h, (Nat.find_spec h).1, (Nat.find_spec h).2,
      fun m hm1 hm hW => Nat.find_min h hm ⟨hm1, hW⟩⟩

/-- **C04c.W7** closed sufficient condition for `CutStays`:
`ln(1/λ)/2 · (1 - w*) · (1-λ)^(2n) ≤ √(w* · ln(1/λ)/2)` with `w* = λ/(2-λ)`; it holds for all large `n`
(defaults `λ = 0.05`, `n = 30`: `1.498·0.974·0.046 ≈ 0.067 ≤ 0.196`). -/
theorem cutStays_of_le (lam : ℝ) (h0 : 0 < lam) (h1 : lam < 1) (n : ℕ)
    (h : Real.log (1 / lam) / 2 * (1 - wstar lam) * ((1 - lam) ^ 2) ^ n ≤
      Real.sqrt (wstar lam * Real.log (1 / lam) / 2)) : CutStays lam n := by
  intro m _
  have hL := log_inv_pos lam h0 h1
  obtain ⟨hw0, hw1⟩ := wstar_bounds lam h0 h1
  set L := Real.log (1 / lam) with hLdef
  set A := Real.sqrt (wibc lam n * L / 2) with hA
  set B := Real.sqrt (wibc lam (n + m) * L / 2) with hB
  set C := Real.sqrt (wstar lam * L / 2) with hC
  have hA2 : A ^ 2 = wibc lam n * L / 2 := Real.sq_sqrt (by have := wibc_nonneg lam n; positivity)
  have hB2 : B ^ 2 = wibc lam (n + m) * L / 2 := Real.sq_sqrt (by have := wibc_nonneg lam (n + m); positivity)
  have hC0 : 0 < C := Real.sqrt_pos.mpr (by positivity)
  have hCA : C ≤ A := Real.sqrt_le_sqrt (by
    have := wibc_gt_wstar lam h0 h1 n
    have : wstar lam * L ≤ wibc lam n * L := mul_le_mul_of_nonneg_right this.le hL.le
    linarith)
  have hCB : C ≤ B := Real.sqrt_le_sqrt (by
    have := wibc_gt_wstar lam h0 h1 (n + m)
    have : wstar lam * L ≤ wibc lam (n + m) * L := mul_le_mul_of_nonneg_right this.le hL.le
    linarith)
  have hr0 : 0 < 1 - lam := by linarith
  set ρ := (1 - lam) ^ m with hρ
  have hρ0 : 0 < ρ := by positivity
  have hρ1 : ρ ≤ 1 := pow_le_one₀ hr0.le (by linarith)
  set Q := ((1 - lam) ^ 2) ^ n with hQ
  have hQ0 : 0 < Q := by positivity
  have hdiff : A ^ 2 - B ^ 2 = L / 2 * (1 - wstar lam) * Q * (1 - ρ ^ 2) := by
    rw [hA2, hB2, wibc_closed lam (by linarith) n, wibc_closed lam (by linarith) (n + m), pow_add]
    have : ((1 - lam) ^ 2) ^ m = ρ ^ 2 := by rw [hρ, ← pow_mul, ← pow_mul, mul_comm]
    rw [this]; ring
  have hD0 : 0 ≤ L / 2 * (1 - wstar lam) * Q := by
    have : 0 < 1 - wstar lam := by linarith
    positivity
  have hbound : A ^ 2 - B ^ 2 ≤ 2 * C * (1 - ρ) := by
    rw [hdiff]
    have e : (1 - ρ ^ 2) = (1 - ρ) * (1 + ρ) := by ring
    rw [e]
    have h1ρ : 0 ≤ 1 - ρ := by linarith
    have : L / 2 * (1 - wstar lam) * Q * ((1 - ρ) * (1 + ρ)) ≤ L / 2 * (1 - wstar lam) * Q * ((1 - ρ) * 2) := by
      apply mul_le_mul_of_nonneg_left _ hD0
      apply mul_le_mul_of_nonneg_left _ h1ρ
      linarith
    have : L / 2 * (1 - wstar lam) * Q * ((1 - ρ) * 2) ≤ C * ((1 - ρ) * 2) :=
      mul_le_mul_of_nonneg_right h (by positivity)
    linarith
  by_contra hcon
  rw [not_le] at hcon
  have hpos : 0 < A - B - (1 - ρ) := by linarith
  have h1ρ : 0 ≤ 1 - ρ := by linarith
  have hAB : 0 ≤ A - B := by linarith
  have hsum : 0 ≤ A + B - 2 * C := by linarith
  nlinarith [mul_pos hpos hC0, mul_nonneg hAB hsum]

/-- non-vacuity of `hddmw_rise_delay` / `hddmw_rise_exists`: `λ = 1/2`, `alpha_d = e^{-2}`, `alpha_w = 1`
(an accepted configuration: `0 < alpha_d < alpha_w ≤ 1`, `0 < λ ≤ 1`), two-sided, `min_num_instances = 1`, `n = 1`
zero: `ln(1/alpha_d) = 2`, the cut stays and the first firing step exists. -/
example : ∃ (c : HDDMW.Cfg ℝ) (n js : ℕ), c.twoSided = true ∧
    (c.twoSided = true → 2 ≤ Real.log (1 / c.alphaD)) ∧ 0 < c.alphaD ∧ c.alphaD ≤ 1 ∧ c.alphaD < c.alphaW ∧
    0 < c.alphaW ∧ c.alphaW ≤ 1 ∧ 0 < c.lam ∧ c.lam < 1 ∧ 1 ≤ n ∧ c.minN ≤ n ∧ CutStays c.lam n ∧
    IsFirstW c.lam n c.alphaD js := by
  have hlog : Real.log (1 / (1 / 2 : ℝ)) = Real.log 2 := by norm_num
  have hw : wstar (1 / 2) = 1 / 3 := by norm_num [wstar]
  have hcut : CutStays (1 / 2) 1 := by
    apply cutStays_of_le _ (by norm_num) (by norm_num)
    rw [hlog, hw]
    have h1 := Real.log_two_gt_d9
    have h2 := Real.log_two_lt_d9
    have : (0.06 : ℝ) ≤ Real.sqrt (1 / 3 * Real.log 2 / 2) := by
      rw [Real.le_sqrt' (by norm_num)]; norm_num; linarith
    norm_num at this ⊢
    linarith
  have hex : ∃ js, IsFirstW (1 / 2) 1 (Real.exp (-2)) js := by
    rw [exists_isFirstW_iff _ _ (by norm_num) (by norm_num) (Real.exp_pos _)
      (by rw [Real.exp_le_one_iff]; norm_num)]
    have hi : wibc (1 / 2) 1 = 1 / 2 := by norm_num [wibc]
    have hl : Real.log (1 / Real.exp (-2)) = 2 := by simp [Real.exp_neg]
    rw [hi, hw, hl]; norm_num
  obtain ⟨js, hjs⟩ := hex
  refine ⟨⟨Real.exp (-2), 1, true, 1 / 2, 1⟩, 1, js, rfl, fun _ => by simp [Real.exp_neg], Real.exp_pos _, ?_, ?_,
    one_pos, le_refl _,
    by norm_num, by norm_num, le_refl _, le_refl _, hcut, hjs⟩
  · show Real.exp (-2) ≤ 1
    rw [Real.exp_le_one_iff]; norm_num
  · show Real.exp (-2) < 1
    rw [Real.exp_lt_one_iff]; norm_num

/-! ### the asymmetry (known finding KF-C04-1): a drop is not flagged like the mirrored rise -/

/-- accepted configuration (`0 < alpha_d = e^{-1/4} < alpha_w = 1`, `λ = 1/2`, `min_num_instances = 1`), two-sided -/
noncomputable def cAsym : HDDMW.Cfg ℝ := ⟨Real.exp (-(1 / 4)), 1, true, 1 / 2, 1⟩

theorem cAsym_ok : 0 < cAsym.alphaD ∧ cAsym.alphaD ≤ 1 ∧ cAsym.alphaD < cAsym.alphaW ∧ 0 < cAsym.alphaW ∧
    cAsym.alphaW ≤ 1 ∧ 0 < cAsym.lam ∧ cAsym.lam ≤ 1 ∧ 1 ≤ cAsym.minN := by
  refine ⟨Real.exp_pos _, ?_, ?_, one_pos, le_refl _, by norm_num [cAsym], by norm_num [cAsym], le_refl _⟩
  · show Real.exp (-(1 / 4)) ≤ 1
    rw [Real.exp_le_one_iff]; norm_num
  · show Real.exp (-(1 / 4)) < 1
    rw [Real.exp_lt_one_iff]; norm_num

/-- **C04c.W8 `hddmw_drop_not_mirror_witness` (KF-C04-1).**  Two-sided HDDM-W with the accepted configuration
`cAsym`: on EVERY drop stream `1^n 0^k` (`n ≥ 1`) a drift is reported already after the FIRST value — the decrease
test compares the EWMA `λ·1 = 1/2` of the single value with the zero-initialised fresh sample `dec2` (EWMA `0`,
ibc `1`): `1/2 > √((ibc(1) + 1)·ln(1/alpha_d)/2) = √(3/16)` — whereas on the mirrored rise stream `0^n 1^k` nothing is
reported after the first value (nor after any of the `n` zeros).  Hence the first-drift step of `1^n 0^k` (= 1,
inside the all-ones prefix, after which the detector restarts) differs from that of `0^n 1^k` (> n): the
two-sided HDDM-W is NOT symmetric under `x ↦ 1 - x`, in contrast to HDDM-A (`C04.hddma_flip`, `C04b.drop_eq_rise`).
Root cause: `SampleInfo()` starts at EWMA `0`, which is a neutral value for a rise from `0` but not for a drop
from `1`. -/
theorem hddmw_drop_not_mirror_witness (n k : ℕ) (hn : 1 ≤ n) :
    (wRun cAsym (HDDMW.init cAsym) ((dropStream n k).take 1)).drift = true ∧
    (∀ t, t ≤ n → (wRun cAsym (HDDMW.init cAsym) ((riseStream n k).take t)).drift = false) := by
  obtain ⟨hd0, hd1, -, hw0, hw1, -, -, -⟩ := cAsym_ok
  constructor
  · have e : (dropStream n k).take 1 = [] ++ [1] := by
      obtain ⟨j, rfl⟩ : ∃ j, n = j + 1 := ⟨n - 1, by omega⟩
      simp [dropStream, List.replicate_succ]
    rw [e, quiet_drift_iff cAsym hd0 hd1 hw0 hw1 [] 1 (quiet_nil _) 1 1 (by simpa using isFirstArgmin_one _)
      (fun _ => by simpa using (isFirstArgmax_iff_neg _ _ _).mpr (isFirstArgmin_one _))]
    refine ⟨le_refl _, Or.inr ⟨rfl, ?_⟩⟩
    have hl : Real.log (1 / cAsym.alphaD) = 1 / 4 := by simp [cAsym, Real.exp_neg]
    have h1 : wmean cAsym.lam [1] = 1 / 2 := by
      have := wmean_append cAsym.lam [] 1
      rw [List.nil_append, wmean_nil] at this
      rw [this]; norm_num [cAsym]
    have hi1 : wibc cAsym.lam 1 = 1 / 2 := by norm_num [wibc, cAsym]
    simp only [mcdDec, mcdThr, List.nil_append, List.length_singleton, List.take_succ_cons, List.take_zero,
      List.drop_succ_cons, List.drop_zero, Nat.sub_self, wibc_zero, wmean_nil, hl, h1, hi1]
    rw [Real.sqrt_lt' (by norm_num)]
    norm_num
  · intro t ht
    have hq := quiet_zeros cAsym hd0 hd1 hw0 hw1 t _ (List.prefix_refl _)
    rw [take_riseStream, Nat.min_eq_left ht, show t - n = 0 by omega, Nat.zero_min]
    simpa [riseStream] using hq

/- UNPROVED (full statement): the drop side for strict levels (e.g. the frouros defaults), where no alarm occurs inside
   the all-ones prefix: on `1^n 0^k` the first two-sided drift is at ones-step `jd ≠ js` in general (Float model,
   defaults, `n = 30`: value 55 for the drop vs 57 for the rise; `n = 100`: 114 vs 124).
   theorem hddmw_drop_delay (c) (hts : c.twoSided = true) … (jd) (hjd : jd first m ≥ 1 with
       (1 - (1-λ)^n) (1-λ)^m … ) : first drift on `dropStream n k` at `n + jd`
   Needs the first maximiser of `dnW` along `1^n 0^m` (it is NOT simply `n`: during the ones `dnW` increases, and the
   reference level reached is `1 - (1-λ)^n`, not `1`), then the same scheme as `hddmw_rise_delay`. -/

/- UNPROVED (full statement): ops-level versions (histories with interleaved `reset()`) of `hddma_flags_declarative`
   and `hddmw_flags_declarative`, with `seg` = values since the last drift OR reset. -/

end Rise

/-! ## axioms used -/
#print axioms isFirstArgmin_unique
#print axioms isLastArgmin_unique
#print axioms exists_isFirstArgmin
#print axioms exists_isLastArgmin
#print axioms hddma_cut_declarative
#print axioms hddma_cut_declarative_state
#print axioms hddma_warning_iff_textbook
#print axioms hddma_flags_declarative
#print axioms hddmw_flags
#print axioms wibc_closed
#print axioms hddmw_cut_declarative
#print axioms hddmw_flags_declarative
#print axioms hddmw_rise_delay
#print axioms hddmw_rise_exists
#print axioms exists_isFirstW_iff
#print axioms cutStays_of_le
#print axioms hddmw_drop_not_mirror_witness

end Frouros.C04c
