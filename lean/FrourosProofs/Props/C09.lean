/-
  C09 — MMD is the unbiased estimator for any chunking; streaming MMD = batch MMD on the window.

  Model: `FrourosModel/MMD.lean`, `CQ` in `FrourosModel/Stats.lean`.

  1. `chunks` (any element type): `chunksAux_fuel` (the fuel suffices), `chunks_flatten`, `chunks_ne_nil`,
     `chunks_length_le`, `chunks_of_length_le`, `chunks_eq_slices` (= the Python slices).
  2. kernel sums at `ℝ`: `kernelSum_eq` (fold = `List.sum` double sum), `computeKernel_flatten`, `chunk_sum`.
  3. `offDiag_eq`, `kernelSum_self`, `mmd_eq_unbiased`, `mmd_precomputed_eq(_unbiased)`, `mmd_chunk_invariant`,
     `mmd_diag_witness` (why `k x x = 1` is needed), `rbf_self` (the RBF kernel satisfies it).
  4. `perm_invariant` (no hypotheses).
  5. circular queue (any element type): `QInv`, `enqueue_spec`, `qinv_pushAll`, `qinv_toList`, `raw_perm_toList`,
     `raw_isRotated_toList`, `qinv_raw_perm`.
  6. streaming: `stream_window`, `stream_warmup`, `stream_queue` (EVERY carrier `[Num α]`), then at `ℝ`
     `stream_eq_batch`, `stream_eq_unbiased`.
  Nothing is left unproved; no statement had to be weakened to a `_partial`.
-/
import Mathlib.Tactic.Ring
import Mathlib.Tactic.FieldSimp
import Mathlib.Tactic.Linarith
import Mathlib.Algebra.BigOperators.Group.List.Basic
import Mathlib.Algebra.BigOperators.Group.Finset.Basic
import Mathlib.Data.List.Rotate
import FrourosProofs.RealNum
import FrourosModel.MMD

namespace Frouros.C09
open Frouros Frouros.MMD

/-! ## 1. `chunks` (any element type; no carrier involved) -/
section Chunks
variable {X : Type}

theorem chunksAux_nil (cs fuel : Nat) : chunksAux cs fuel ([] : List X) = [] := by
  cases fuel <;> simp [chunksAux]

/-- one unrolling of `chunksAux` on a non-empty list -/
theorem chunksAux_succ_of_ne_nil (cs fuel : Nat) (l : List X) (h : l ≠ []) :
    chunksAux cs (fuel + 1) l = l.take cs :: chunksAux cs fuel (l.drop cs) := by
  simp [chunksAux, h]

theorem chunksAux_fuel_irrel (cs : Nat) (hcs : 0 < cs) (f1 f2 : Nat) (l : List X)
    (h1 : l.length ≤ f1) (h2 : l.length ≤ f2) : chunksAux cs f1 l = chunksAux cs f2 l := by
  induction f1 generalizing f2 l with
  | zero =>
    have : l = [] := List.length_eq_zero_iff.mp (by omega)
    subst this; simp [chunksAux_nil]
  | succ f1 ih =>
    by_cases hl : l = []
    · subst hl; simp [chunksAux_nil]
    · have hpos : 0 < l.length := List.length_pos_iff.mpr hl
      obtain ⟨n, rfl⟩ : ∃ n, f2 = n + 1 := ⟨f2 - 1, by omega⟩
      have hd : (l.drop cs).length ≤ f1 := by rw [List.length_drop]; omega
      have hd' : (l.drop cs).length ≤ n := by rw [List.length_drop]; omega
      rw [chunksAux_succ_of_ne_nil _ _ _ hl, chunksAux_succ_of_ne_nil _ _ _ hl, ih _ _ hd hd']

/-- **The fuel suffices**: with `cs > 0`, any fuel `≥ l.length` gives the same result as the model's fuel
`l.length` (so the fuel never cuts the Python loop short). -/
theorem chunksAux_fuel (cs : Nat) (hcs : 0 < cs) (fuel : Nat) (l : List X) (h : l.length ≤ fuel) :
    chunksAux cs fuel l = chunks cs l :=
  chunksAux_fuel_irrel cs hcs _ _ l h (Nat.le_refl _)

/-- the Python recursion `chunks(l) = [l[:cs]] + chunks(l[cs:])` for non-empty `l` -/
theorem chunks_cons (cs : Nat) (hcs : 0 < cs) (l : List X) (h : l ≠ []) :
    chunks cs l = l.take cs :: chunks cs (l.drop cs) := by
  have hpos : 0 < l.length := List.length_pos_iff.mpr h
  obtain ⟨n, hn⟩ : ∃ n, l.length = n + 1 := ⟨l.length - 1, by omega⟩
  conv_lhs => unfold chunks
  rw [hn, chunksAux_succ_of_ne_nil _ _ _ h, chunksAux_fuel cs hcs]
  rw [List.length_drop]; omega

@[simp] theorem chunks_nil (cs : Nat) : chunks cs ([] : List X) = [] := rfl

theorem chunksAux_flatten (cs : Nat) (hcs : 0 < cs) (fuel : Nat) (l : List X) (h : l.length ≤ fuel) :
    (chunksAux cs fuel l).flatten = l := by
  induction fuel generalizing l with
  | zero =>
    have : l = [] := List.length_eq_zero_iff.mp (by omega)
    subst this; rfl
  | succ fuel ih =>
    by_cases hl : l = []
    · subst hl; simp [chunksAux_nil]
    · have hpos : 0 < l.length := List.length_pos_iff.mpr hl
      have hd : (l.drop cs).length ≤ fuel := by rw [List.length_drop]; omega
      rw [chunksAux_succ_of_ne_nil _ _ _ hl, List.flatten_cons, ih _ hd, List.take_append_drop]

/-- **chunks_flatten.**  For `cs > 0` concatenating the chunks gives back the list. -/
theorem chunks_flatten (cs : Nat) (hcs : 0 < cs) (l : List X) : (chunks cs l).flatten = l :=
  chunksAux_flatten cs hcs _ l (Nat.le_refl _)

theorem chunksAux_mem (cs : Nat) (fuel : Nat) (l : List X) (c : List X)
    (h : c ∈ chunksAux cs fuel l) : c.length ≤ cs ∧ (0 < cs → c ≠ []) := by
  induction fuel generalizing l with
  | zero => simp [chunksAux] at h
  | succ fuel ih =>
    by_cases hl : l = []
    · subst hl; simp [chunksAux_nil] at h
    · rw [chunksAux_succ_of_ne_nil _ _ _ hl, List.mem_cons] at h
      rcases h with rfl | h
      · refine ⟨by rw [List.length_take]; omega, fun hcs => ?_⟩
        have hpos : 0 < l.length := List.length_pos_iff.mpr hl
        intro h0
        have := congrArg List.length h0
        rw [List.length_take, List.length_nil] at this
        omega
      · exact ih _ h

/-- every chunk has length `≤ cs` (any `cs`) -/
theorem chunks_length_le (cs : Nat) (l c : List X) (h : c ∈ chunks cs l) : c.length ≤ cs :=
  (chunksAux_mem cs _ l c h).1

/-- for `cs > 0` every chunk is non-empty -/
theorem chunks_ne_nil (cs : Nat) (hcs : 0 < cs) (l c : List X) (h : c ∈ chunks cs l) : c ≠ [] :=
  (chunksAux_mem cs _ l c h).2 hcs

/-- a chunk size `≥ len` (and a non-empty list) gives a single chunk: the whole list -/
theorem chunks_of_length_le (cs : Nat) (l : List X) (hl : l ≠ []) (h : l.length ≤ cs) : chunks cs l = [l] := by
  have hpos : 0 < l.length := List.length_pos_iff.mpr hl
  rw [chunks_cons cs (by omega) l hl, List.take_of_length_le h, List.drop_of_length_le h, chunks_nil]

/-- **The chunks are the Python slices** `l[i*cs : i*cs + cs]` for `i = 0 .. ⌈len/cs⌉ - 1`
(`range(0, len, cs)` has `⌈len/cs⌉ = (len + cs - 1) / cs` elements). -/
theorem chunks_eq_slices (cs : Nat) (hcs : 0 < cs) (l : List X) :
    chunks cs l = (List.range ((l.length + cs - 1) / cs)).map (fun i => (l.drop (i * cs)).take cs) := by
  generalize hn : l.length = n
  induction n using Nat.strong_induction_on generalizing l with
  | _ n ih =>
    by_cases hl : l = []
    · subst hl
      simp only [List.length_nil] at hn
      subst hn
      have : (0 + cs - 1) / cs = 0 := Nat.div_eq_of_lt (by omega)
      rw [this]; rfl
    · have hpos : 0 < l.length := List.length_pos_iff.mpr hl
      have hcnt : (n + cs - 1) / cs = (n - cs + cs - 1) / cs + 1 := by
        by_cases hle : cs ≤ n
        · have : n + cs - 1 = (n - cs + cs - 1) + cs := by omega
          rw [this, Nat.add_div_right _ hcs]
        · have h1 : (n + cs - 1) / cs = 1 := by
            apply Nat.div_eq_of_lt_le <;> omega
          have h2 : (n - cs + cs - 1) / cs = 0 := Nat.div_eq_of_lt (by omega)
          rw [h1, h2]
      rw [chunks_cons cs hcs l hl, ih (n - cs) (by omega) (l.drop cs) (by rw [List.length_drop]; omega),
        hcnt, List.range_succ_eq_map, List.map_cons, List.map_map]
      congr 1
      · simp
      · apply List.map_congr_left
        intro i _
        simp only [Function.comp, List.drop_drop]
        congr 2
        rw [Nat.succ_mul]; omega

example : chunks 2 [1, 2, 3, 4, 5] = [[1, 2], [3, 4], [5]] := by decide
example : chunks 7 [1, 2, 3] = [[1, 2, 3]] := by decide

/-- degenerate chunk size `0` (excluded by the hypotheses below; recorded for `perm_invariant`): all chunks are empty -/
theorem chunks_zero_flatten (l : List X) : (chunks 0 l).flatten = [] := by
  rw [List.flatten_eq_nil_iff]
  intro c hc
  exact List.length_eq_zero_iff.mp (Nat.le_zero.mp (chunks_length_le 0 l c hc))

theorem chunks_flatten' (cs : Nat) (l : List X) : (chunks cs l).flatten = if cs = 0 then [] else l := by
  by_cases h : cs = 0
  · subst h; simp [chunks_zero_flatten]
  · simp [h, chunks_flatten cs (by omega)]
end Chunks

/-! ## 2. kernel sums (carrier `ℝ`) -/
section Sums
variable {X : Type}

/-- the model's left fold `((0 + a₁) + a₂) + …` is `List.sum` -/
theorem sum_eq (l : List ℝ) : MMD.sum l = l.sum := by
  unfold MMD.sum
  rw [List.sum_eq_foldl, RealNum.zero_eq]

/-- **kernelSum = double sum** `Σ_{a∈A} Σ_{b∈B} k a b` -/
theorem kernelSum_eq (k : X → X → ℝ) (A B : List X) :
    kernelSum k A B = (A.map (fun a => (B.map (fun b => k a b)).sum)).sum := by
  unfold kernelSum
  rw [sum_eq]
  congr 1
  apply List.map_congr_left
  intro a _
  rw [sum_eq]

theorem computeKernel_eq (k : X → X → ℝ) (as bs : List (List X)) :
    computeKernel k as bs = (as.map (fun A => (bs.map (fun B => kernelSum k A B)).sum)).sum := by
  unfold computeKernel
  rw [sum_eq]
  congr 1
  apply List.map_congr_left
  intro a _
  rw [sum_eq]

@[simp] theorem kernelSum_nil_left (k : X → X → ℝ) (B : List X) : kernelSum k [] B = 0 := by
  simp [kernelSum_eq]
@[simp] theorem kernelSum_nil_right (k : X → X → ℝ) (A : List X) : kernelSum k A [] = 0 := by
  simp [kernelSum_eq]

theorem kernelSum_append_left (k : X → X → ℝ) (A A' B : List X) :
    kernelSum k (A ++ A') B = kernelSum k A B + kernelSum k A' B := by
  simp [kernelSum_eq]

theorem kernelSum_append_right (k : X → X → ℝ) (A B B' : List X) :
    kernelSum k A (B ++ B') = kernelSum k A B + kernelSum k A B' := by
  simp only [kernelSum_eq, List.map_append, List.sum_append]
  rw [List.sum_map_add]

theorem kernelSum_flatten_right (k : X → X → ℝ) (A : List X) (bs : List (List X)) :
    kernelSum k A bs.flatten = (bs.map (fun B => kernelSum k A B)).sum := by
  induction bs with
  | nil => simp
  | cons B bs ih => simp [kernelSum_append_right, ih]

theorem kernelSum_flatten_left (k : X → X → ℝ) (as : List (List X)) (B : List X) :
    kernelSum k as.flatten B = (as.map (fun A => kernelSum k A B)).sum := by
  induction as with
  | nil => simp
  | cons A as ih => simp [kernelSum_append_left, ih]

/-- the sum over the product of two *arbitrary* families of blocks is the kernel sum of the concatenations -/
theorem computeKernel_flatten (k : X → X → ℝ) (as bs : List (List X)) :
    computeKernel k as bs = kernelSum k as.flatten bs.flatten := by
  rw [computeKernel_eq, kernelSum_flatten_left]
  congr 1
  apply List.map_congr_left
  intro A _
  rw [kernelSum_flatten_right]

/-- **chunk_sum.**  For positive chunk sizes the chunked computation is the plain kernel sum. -/
theorem chunk_sum (k : X → X → ℝ) (csa csb : Nat) (ha : 0 < csa) (hb : 0 < csb) (A B : List X) :
    computeKernel k (chunks csa A) (chunks csb B) = kernelSum k A B := by
  rw [computeKernel_flatten, chunks_flatten csa ha, chunks_flatten csb hb]

/-- `chunk_sum` with the double sum spelled out -/
theorem chunk_sum' (k : X → X → ℝ) (csa csb : Nat) (ha : 0 < csa) (hb : 0 < csb) (A B : List X) :
    computeKernel k (chunks csa A) (chunks csb B) = (A.map (fun a => (B.map (fun b => k a b)).sum)).sum := by
  rw [chunk_sum k csa csb ha hb, kernelSum_eq]

example : computeKernel (fun a b : ℝ => a * b) (chunks 2 [1, 2, 3]) (chunks 1 [4, 5]) = 54 := by
  rw [chunk_sum' _ 2 1 (by omega) (by omega)]; norm_num

/-- all chunk sizes including the degenerate `0` (then there are only empty chunks and the sum is `0`) -/
theorem chunk_sum_any (k : X → X → ℝ) (csa csb : Nat) (A B : List X) :
    computeKernel k (chunks csa A) (chunks csb B) =
      kernelSum k (if csa = 0 then [] else A) (if csb = 0 then [] else B) := by
  rw [computeKernel_flatten, chunks_flatten', chunks_flatten']
end Sums

/-! ## 3. `mmd` is the unbiased estimator, for every valid chunk size -/
section Unbiased
variable {X : Type}
open Finset in
theorem sum_map_range (f : ℕ → ℝ) (n : ℕ) : ((List.range n).map f).sum = ∑ i ∈ Finset.range n, f i := by
  induction n with
  | zero => simp
  | succ n ih => rw [List.range_succ, List.map_append, List.sum_append, ih, Finset.sum_range_succ]; simp

/-- **`offDiag` is the sum over ordered pairs of distinct indices** (the model's definition uses `xs[i]?` with a
default branch; that branch is never taken because `i, j < xs.length`). -/
theorem offDiag_eq (k : X → X → ℝ) (l : List X) :
    offDiag k l = ∑ i : Fin l.length, ∑ j : Fin l.length, if i = j then 0 else k l[i] l[j] := by
  unfold offDiag
  simp only [sum_eq, sum_map_range, Finset.sum_range, RealNum.zero_eq]
  apply Finset.sum_congr rfl
  intro i _
  apply Finset.sum_congr rfl
  intro j _
  simp [Fin.ext_iff]

/-- **The diagonal.**  With `k x x = 1` the full kernel sum is the off-diagonal sum plus `n` — this is what justifies
the model's (and frouros') `Σ k(x_i,x_j) - n`. -/
theorem kernelSum_self (k : X → X → ℝ) (hk : ∀ x, k x x = 1) (l : List X) :
    kernelSum k l l = offDiag k l + (l.length : ℝ) := by
  rw [kernelSum_eq, offDiag_eq, ← Fin.sum_univ_fun_getElem]
  have h : ∀ i : Fin l.length, (l.map (fun b => k l[i.1] b)).sum =
      (∑ j : Fin l.length, if i = j then 0 else k l[i] l[j]) + 1 := by
    intro i
    rw [← Fin.sum_univ_fun_getElem]
    have h1 : ∑ j : Fin l.length, (if i = j then k l[i] l[j] else 0) = 1 := by
      rw [Finset.sum_ite_eq]; simp [hk]
    rw [← h1, ← Finset.sum_add_distrib]
    apply Finset.sum_congr rfl
    intro j _
    split <;> simp
  simp only [h]
  rw [Finset.sum_add_distrib]
  simp

/-- the textbook unbiased estimator of MMD² (specification):
`Σ_{i≠j} k(x_i,x_j) / (n(n-1)) + Σ_{i≠j} k(y_i,y_j) / (m(m-1)) - 2 Σ_{i,j} k(x_i,y_j) / (n m)` -/
noncomputable def unbiased (k : X → X → ℝ) (xs ys : List X) : ℝ :=
  offDiag k xs / ((xs.length : ℝ) * ((xs.length : ℝ) - 1))
    + offDiag k ys / ((ys.length : ℝ) * ((ys.length : ℝ) - 1))
    - 2 * (xs.map (fun x => (ys.map (fun y => k x y)).sum)).sum / ((xs.length : ℝ) * (ys.length : ℝ))

/-- a chunk size is valid if it is `None` or a positive integer -/
def ValidChunk (chunkSize : Option Nat) : Prop := ∀ cs, chunkSize = some cs → 0 < cs

theorem validChunk_iff (c : Option Nat) : ValidChunk c ↔ c = none ∨ ∃ cs, 0 < cs ∧ c = some cs := by
  cases c with
  | none => simp [ValidChunk]
  | some c => simp [ValidChunk]

theorem getD_pos (chunkSize : Option Nat) (h : ValidChunk chunkSize) (n : Nat) (hn : 0 < n) :
    0 < chunkSize.getD n := by
  cases chunkSize with
  | none => simpa using hn
  | some c => simpa using h c rfl

theorem cast_pred_mul (n : ℕ) (hn : 1 ≤ n) : ((n * (n - 1) : ℕ) : ℝ) = (n : ℝ) * ((n : ℝ) - 1) := by
  rw [Nat.cast_mul, Nat.cast_sub hn, Nat.cast_one]

/-- the reference term `E[k(x,x')]`, for any positive chunk size -/
theorem expectedK_eq (k : X → X → ℝ) (hk : ∀ x, k x x = 1) (cs : Nat) (hcs : 0 < cs) (xs : List X)
    (hn : 2 ≤ xs.length) :
    expectedK k cs xs = offDiag k xs / ((xs.length : ℝ) * ((xs.length : ℝ) - 1)) := by
  unfold expectedK
  simp only [chunk_sum k cs cs hcs hcs, kernelSum_self k hk, RealNum.ofNat_eq, cast_pred_mul _ (by omega : 1 ≤ xs.length)]
  congr 1
  ring

/-- **mmd_eq_unbiased.**  With a normalised kernel (`k x x = 1`), at least two points on each side and a valid chunk
size, the chunked computation `MMD._mmd` is the textbook unbiased estimator.

Hypotheses: `k x x = 1` is what makes "subtract `n`" remove the diagonal (see `mmd_diag_witness` for what happens
otherwise); `2 ≤ n`, `2 ≤ m` make the denominators `n(n-1)`, `m(m-1)`, `n m` non-zero (for `n ≤ 1` both sides are the
same `x / 0` junk value, so the equation would be true for the wrong reason; we exclude it); `ValidChunk` excludes
`chunk_size = 0`, for which `chunks` consists of empty slices only and every kernel sum is `0`. -/
theorem mmd_eq_unbiased (k : X → X → ℝ) (hk : ∀ x, k x x = 1) (chunkSize : Option Nat) (hcs : ValidChunk chunkSize)
    (xs ys : List X) (hn : 2 ≤ xs.length) (hm : 2 ≤ ys.length) :
    mmd k chunkSize xs ys none = unbiased k xs ys := by
  have hx := getD_pos chunkSize hcs xs.length (by omega)
  have hy := getD_pos chunkSize hcs ys.length (by omega)
  unfold mmd unbiased
  simp only [expectedK_eq k hk _ hx xs hn, chunk_sum k _ _ hy hy, chunk_sum k _ _ hx hy, kernelSum_self k hk,
    RealNum.ofNat_eq, RealNum.two_eq, cast_pred_mul _ (by omega : 1 ≤ ys.length), Nat.cast_mul]
  rw [kernelSum_eq]
  congr 2
  ring
end Unbiased

section Unbiased2
variable {X : Type}

/-- Non-vacuity of `mmd_eq_unbiased` (a normalised kernel, two points each, `chunk_size = 1`), with the value. -/
example : mmd (fun a b : ℕ => if a = b then (1 : ℝ) else 0) (some 1) [1, 2] [1, 3] none = -1 / 2 := by
  rw [mmd_eq_unbiased _ (by simp) _ (by simp [ValidChunk]) _ _ (by simp) (by simp)]
  simp [unbiased, offDiag_eq, Fin.sum_univ_two]
  norm_num

/-- **mmd_diag_witness.**  `k x x = 1` cannot be dropped: with the constant kernel `2` on two points each the model's
value is `2` whereas the unbiased estimator is `0` (the model subtracts `n`, not the actual diagonal `Σ k x_i x_i`). -/
theorem mmd_diag_witness :
    mmd (fun _ _ : Unit => (2 : ℝ)) none [(), ()] [(), ()] none = 2 ∧
      unbiased (fun _ _ : Unit => (2 : ℝ)) [(), ()] [(), ()] = 0 := by
  constructor
  · unfold mmd expectedK
    simp only [Option.getD_none, List.length_cons, List.length_nil, chunk_sum _ 2 2 (by omega) (by omega), kernelSum_eq]
    simp
    norm_num
  · simp [unbiased, offDiag_eq, Fin.sum_univ_two]
    norm_num

/-- **mmd_precomputed_eq.**  Passing the reference term computed at fit time (with the fit-time chunk size, which in
frouros is the same `chunk_size`) gives the same value as recomputing it: this is definitional. -/
theorem mmd_precomputed_eq (k : X → X → ℝ) (chunkSize : Option Nat) (xs ys : List X) :
    mmd k chunkSize xs ys (some (expectedK k (chunkSize.getD xs.length) xs)) = mmd k chunkSize xs ys none := rfl

/-- the precomputed variant is the unbiased estimator as well — even if the reference term was computed with a
*different* valid chunk size `cs'` -/
theorem mmd_precomputed_eq_unbiased (k : X → X → ℝ) (hk : ∀ x, k x x = 1) (chunkSize : Option Nat)
    (hcs : ValidChunk chunkSize) (cs' : Nat) (hcs' : 0 < cs') (xs ys : List X) (hn : 2 ≤ xs.length) (hm : 2 ≤ ys.length) :
    mmd k chunkSize xs ys (some (expectedK k cs' xs)) = unbiased k xs ys := by
  rw [← mmd_eq_unbiased k hk chunkSize hcs xs ys hn hm, ← mmd_precomputed_eq,
    expectedK_eq k hk cs' hcs' xs hn, expectedK_eq k hk _ (getD_pos chunkSize hcs xs.length (by omega)) xs hn]

/-- **mmd_chunk_invariant.**  The result does not depend on the chunk size: any two valid chunk sizes (`None` or
positive) give the same value, with or without the precomputed reference term. -/
theorem mmd_chunk_invariant (k : X → X → ℝ) (hk : ∀ x, k x x = 1) (c1 c2 : Option Nat) (h1 : ValidChunk c1)
    (h2 : ValidChunk c2) (xs ys : List X) (hn : 2 ≤ xs.length) (hm : 2 ≤ ys.length) :
    mmd k c1 xs ys none = mmd k c2 xs ys none ∧
      mmd k c1 xs ys (some (expectedK k (c1.getD xs.length) xs)) =
        mmd k c2 xs ys (some (expectedK k (c2.getD xs.length) xs)) := by
  rw [mmd_precomputed_eq, mmd_precomputed_eq, mmd_eq_unbiased k hk c1 h1 xs ys hn hm,
    mmd_eq_unbiased k hk c2 h2 xs ys hn hm]
  exact ⟨rfl, rfl⟩

example : ValidChunk none ∧ ValidChunk (some 3) ∧ ¬ ValidChunk (some 0) := by simp [ValidChunk]

/-- the kernel frouros actually uses satisfies the hypothesis `k x x = 1` (for a bandwidth `sigma ≠ 0`; with
`sigma = 0` the exponent is `0 / 0`, excluded on purpose) -/
theorem rbf_self (sigma : ℝ) (hs : sigma ≠ 0) (a : List ℝ) : rbf sigma a a = 1 := by
  unfold rbf
  have h0 : MMD.sum (List.zipWith (fun x y : ℝ => (x - y) * (x - y)) a a) = 0 := by
    rw [sum_eq, List.zipWith_self]
    apply List.sum_eq_zero
    intro x hx
    obtain ⟨y, _, rfl⟩ := List.mem_map.mp hx
    ring
  have hd : (Num.two * Num.npow sigma 2 : ℝ) ≠ 0 := by
    simp [hs]
  simp only [h0]
  rw [RealNum.exp_eq]
  have : (-(0 : ℝ)) / (Num.two * Num.npow sigma 2) = 0 := by rw [neg_zero]; exact zero_div _
  rw [this, Real.exp_zero]

/-- `mmd_eq_unbiased` / `mmd_chunk_invariant` instantiated at the RBF kernel: chunk sizes `None`, `1`, `2` agree -/
example (xs ys : List (List ℝ)) (hn : 2 ≤ xs.length) (hm : 2 ≤ ys.length) :
    mmd (rbf (1 : ℝ)) none xs ys none = mmd (rbf (1 : ℝ)) (some 2) xs ys none :=
  (mmd_chunk_invariant (rbf (1 : ℝ)) (rbf_self 1 one_ne_zero) none (some 2) (by simp [ValidChunk])
    (by simp [ValidChunk]) xs ys hn hm).1
end Unbiased2

/-! ## 4. permutation invariance -/
section Perm
variable {X : Type}

theorem kernelSum_perm (k : X → X → ℝ) {A A' B B' : List X} (hA : A.Perm A') (hB : B.Perm B') :
    kernelSum k A B = kernelSum k A' B' := by
  rw [kernelSum_eq, kernelSum_eq]
  have h : (fun a => (B.map (fun b => k a b)).sum) = fun a => (B'.map (fun b => k a b)).sum :=
    funext fun a => (hB.map _).sum_eq
  rw [h]
  exact (hA.map _).sum_eq

/-- the chunked kernel sum is permutation invariant for *every* pair of chunk sizes (including `0`) -/
theorem computeKernel_chunks_perm (k : X → X → ℝ) (ca cb : Nat) {A A' B B' : List X} (hA : A.Perm A')
    (hB : B.Perm B') :
    computeKernel k (chunks ca A) (chunks cb B) = computeKernel k (chunks ca A') (chunks cb B') := by
  rw [chunk_sum_any, chunk_sum_any]
  apply kernelSum_perm
  · split
    · exact List.Perm.refl _
    · exact hA
  · split
    · exact List.Perm.refl _
    · exact hB

/-- **perm_invariant.**  `mmd` is invariant under permutations of both samples, for every chunk size and whether the
reference term is recomputed (`pre = none`) or held fixed (`pre = some e`).  No hypothesis is needed (not even
`k x x = 1` or a valid chunk size): only commutativity/associativity of `+` in `ℝ`. -/
theorem perm_invariant (k : X → X → ℝ) (chunkSize : Option Nat) {xs xs' ys ys' : List X} (hx : xs.Perm xs')
    (hy : ys.Perm ys') (pre : Option ℝ) :
    mmd k chunkSize xs ys pre = mmd k chunkSize xs' ys' pre := by
  unfold mmd expectedK
  simp only [hx.length_eq, hy.length_eq]
  rw [computeKernel_chunks_perm k _ _ hy hy, computeKernel_chunks_perm k _ _ hx hy]
  cases pre with
  | some e => rfl
  | none =>
    simp only []
    rw [computeKernel_chunks_perm k _ _ hx hx]

example (k : ℕ → ℕ → ℝ) (e : ℝ) : mmd k (some 2) [1, 2, 3] [4, 5, 6] (some e) = mmd k (some 2) [1, 2, 3] [6, 4, 5] (some e) :=
  perm_invariant k _ (List.Perm.refl _) (by decide) _
end Perm

/-! ## 5. the circular queue under `enqueue` (pure bookkeeping: any element type, no carrier) -/
section Queue
variable {β : Type}

theorem mod_ne_of_lt (w j t : Nat) (h1 : j < t) (h2 : t < j + w) : t % w ≠ j % w := by
  intro h
  have h0 : (t - j) % w = 0 := Nat.sub_mod_eq_zero_of_mod_eq h
  have := Nat.le_of_dvd (by omega) (Nat.dvd_of_mod_eq_zero h0)
  omega

/-- Representation invariant of a `CQ` of capacity `w` into which exactly the values `vs` have been enqueued
(oldest first), nothing else having been done to it.  `t = vs.length`. -/
structure QInv (w : Nat) (vs : List β) (q : CQ β) : Prop where
  maxLen : q.maxLen = w
  len : q.buf.length = w
  count : q.count = min vs.length w
  first : q.first = (vs.length - min vs.length w) % w
  last : q.last = if vs.length = 0 then none else some ((vs.length - 1) % w)
  /-- the `j`-th value, as long as it is among the last `w`, sits in slot `j % w` -/
  filled : ∀ j, j < vs.length → vs.length ≤ j + w → q.buf[j % w]? = some vs[j]?
  /-- slots never written are still `None` -/
  empty : ∀ i, vs.length ≤ i → i < w → q.buf[i]? = some none

theorem qinv_init (w : Nat) : QInv w ([] : List β) (CQ.init w) := by
  refine ⟨rfl, by simp [CQ.init], by simp [CQ.init], by simp [CQ.init], by simp [CQ.init], ?_, ?_⟩
  · intro j hj; simp at hj
  · intro i _ hi; simp [CQ.init, hi]

theorem qinv_nextLast (w : Nat) (vs : List β) (q : CQ β) (h : QInv w vs q) : q.nextLast = vs.length % w := by
  unfold CQ.nextLast
  rw [h.last, h.maxLen]
  by_cases h0 : vs.length = 0
  · simp [h0]
  · simp only [h0, if_false]
    rw [Nat.mod_add_mod]
    congr 1; omega

/-- the buffer part of one `enqueue` -/
theorem buf_step (w : Nat) (hw : 0 < w) (vs : List β) (buf : List (Option β)) (hlen : buf.length = w)
    (filled : ∀ j, j < vs.length → vs.length ≤ j + w → buf[j % w]? = some vs[j]?)
    (empty : ∀ i, vs.length ≤ i → i < w → buf[i]? = some none) (v : β) :
    (∀ j, j < (vs ++ [v]).length → (vs ++ [v]).length ≤ j + w →
        (buf.set (vs.length % w) (some v))[j % w]? = some (vs ++ [v])[j]?) ∧
    (∀ i, (vs ++ [v]).length ≤ i → i < w → (buf.set (vs.length % w) (some v))[i]? = some none) := by
  have hmod : vs.length % w < buf.length := by rw [hlen]; exact Nat.mod_lt _ hw
  constructor
  · intro j hj hjw
    simp only [List.length_append, List.length_singleton] at hj hjw
    by_cases hjt : j = vs.length
    · subst hjt
      rw [List.getElem?_set_self hmod]
      simp
    · have hlt : j < vs.length := by omega
      rw [List.getElem?_set_ne (mod_ne_of_lt w j vs.length hlt (by omega)), filled j hlt (by omega),
        List.getElem?_append_left hlt]
  · intro i hi hiw
    simp only [List.length_append, List.length_singleton] at hi
    have : vs.length % w = vs.length := Nat.mod_eq_of_lt (by omega)
    rw [this, List.getElem?_set_ne (by omega)]
    exact empty i (by omega) hiw

/-- **enqueue never fails on a queue of positive capacity, preserves the invariant, writes slot `t % w`, and
returns the evicted (oldest) element exactly when the queue was full.** -/
theorem enqueue_spec (w : Nat) (hw : 0 < w) (vs : List β) (q : CQ β) (h : QInv w vs q) (v : β) :
    ∃ q', q.enqueue v = .ok (if vs.length < w then none else vs[vs.length - w]?, q') ∧
      QInv w (vs ++ [v]) q' ∧ q'.buf = q.buf.set (vs.length % w) (some v) := by
  have hnl := qinv_nextLast w vs q h
  obtain ⟨hf, he⟩ := buf_step w hw vs q.buf h.len h.filled h.empty v
  have hlast : (some (vs.length % w) : Option Nat) =
      if (vs ++ [v]).length = 0 then none else some (((vs ++ [v]).length - 1) % w) := by simp
  by_cases hfull : vs.length < w
  · refine ⟨{ q with last := some (vs.length % w), buf := q.buf.set (vs.length % w) (some v), count := q.count + 1 },
      ?_, ⟨h.maxLen, ?_, ?_, ?_, hlast, hf, he⟩, rfl⟩
    · have : q.isFull = false := by
        simp only [CQ.isFull, h.count, h.maxLen, beq_eq_false_iff_ne]; omega
      simp only [CQ.enqueue, this, hfull, hnl, if_true]
      rfl
    · simp [h.len]
    · simp only [h.count, List.length_append, List.length_singleton]; omega
    · simp only [h.first, List.length_append, List.length_singleton]
      congr 1; omega
  · have hge : w ≤ vs.length := by omega
    refine ⟨{ q with first := (q.first + 1) % q.maxLen, last := some (vs.length % w), buf := q.buf.set (vs.length % w) (some v), count := q.count - 1 + 1 },
      ?_, ⟨h.maxLen, ?_, ?_, ?_, hlast, hf, he⟩, rfl⟩
    · have h1 : q.isFull = true := by
        simp only [CQ.isFull, h.count, h.maxLen, beq_iff_eq]; omega
      have h2 : q.isEmpty = false := by
        simp only [CQ.isEmpty, h.count, beq_eq_false_iff_ne]; omega
      have h3 : q.buf.getD q.first none = vs[vs.length - w]? := by
        have := h.filled (vs.length - w) (by omega) (by omega)
        rw [List.getD_eq_getElem?_getD, h.first]
        have e : (vs.length - min vs.length w) = vs.length - w := by omega
        rw [e, this]; rfl
      simp only [CQ.enqueue, h1, CQ.dequeue, h2, hfull, h3, Bool.false_eq_true, ↓reduceIte]
      have : CQ.nextLast { q with first := (q.first + 1) % q.maxLen, count := q.count - 1 } = vs.length % w := by
        rw [← hnl]; rfl
      simp only [this]
    · simp [h.len]
    · simp only [h.count, List.length_append, List.length_singleton]; omega
    · simp only [h.first, h.maxLen, List.length_append, List.length_singleton]
      rw [Nat.mod_add_mod]
      congr 1; omega

/-- the queue after enqueuing `vs` one by one (`enqueue` cannot fail here, see `enqueue_spec`; the `error` branch
returns the queue unchanged and is never taken for `0 < maxLen`) -/
def pushAll (q : CQ β) (vs : List β) : CQ β :=
  vs.foldl (fun q v => match q.enqueue v with | .ok (_, q') => q' | .error _ => q) q

theorem pushAll_snoc (q : CQ β) (vs : List β) (v : β) :
    pushAll q (vs ++ [v]) = (match (pushAll q vs).enqueue v with | .ok (_, q') => q' | .error _ => pushAll q vs) := by
  simp [pushAll, List.foldl_append]

/-- **well-formedness**: the invariant holds after any number of enqueues into `CQ.init w` -/
theorem qinv_pushAll (w : Nat) (hw : 0 < w) (vs : List β) : QInv w vs (pushAll (CQ.init w) vs) := by
  induction vs using List.reverseRecOn with
  | nil => exact qinv_init w
  | append_singleton vs v ih =>
    obtain ⟨q', he, hq, _⟩ := enqueue_spec w hw vs _ ih v
    rw [pushAll_snoc, he]
    exact hq

/-- `len(queue) = min(t, w)` -/
theorem pushAll_count (w : Nat) (hw : 0 < w) (vs : List β) : (pushAll (CQ.init w) vs).count = min vs.length w :=
  (qinv_pushAll w hw vs).count

/-- **toList = the last `w` values**, oldest first (for a full queue: `t ≥ w`) -/
theorem qinv_toList (w : Nat) (vs : List β) (q : CQ β) (h : QInv w vs q) (hge : w ≤ vs.length) :
    q.toList = (vs.drop (vs.length - w)).map some := by
  apply List.ext_getElem?
  intro i
  unfold CQ.toList
  rw [h.count, h.first, h.maxLen, Nat.min_eq_right hge]
  by_cases hi : i < w
  · have hj := h.filled (vs.length - w + i) (by omega) (by omega)
    simp only [List.getElem?_map, List.getElem?_range hi, Option.map_some, Nat.mod_add_mod,
      List.getD_eq_getElem?_getD, hj, List.getElem?_drop]
    have : vs.length - w + i < vs.length := by omega
    simp [List.getElem?_eq_getElem this]
  · have h1 : (List.map (fun i => q.buf.getD (((vs.length - w) % w + i) % w) none) (List.range w)).length ≤ i := by
      simp; omega
    have h2 : ((vs.drop (vs.length - w)).map some).length ≤ i := by simp; omega
    rw [List.getElem?_eq_none h1, List.getElem?_eq_none h2]

/-- for a full queue `toList` is the raw buffer rotated by `first` -/
theorem toList_eq_rotate (q : CQ β) (hlen : q.buf.length = q.maxLen) (hc : q.count = q.maxLen) :
    q.toList = q.buf.rotate q.first := by
  apply List.ext_getElem?
  intro i
  unfold CQ.toList
  by_cases hi : i < q.maxLen
  · rw [hc, List.getElem?_rotate (by omega), hlen]
    have hm : (i + q.first) % q.maxLen < q.buf.length := by rw [hlen]; exact Nat.mod_lt _ (by omega)
    simp only [List.getElem?_map, List.getElem?_range hi, Option.map_some, List.getD_eq_getElem?_getD,
      Nat.add_comm q.first i, List.getElem?_eq_getElem hm, Option.getD_some]
  · have h1 : (List.map (fun i => q.buf.getD ((q.first + i) % q.maxLen) none) (List.range q.count)).length ≤ i := by
      simp; omega
    have h2 : (q.buf.rotate q.first).length ≤ i := by simp; omega
    rw [List.getElem?_eq_none h1, List.getElem?_eq_none h2]

/-- **raw is a permutation (a rotation) of toList when the queue is full** -/
theorem raw_perm_toList (q : CQ β) (hlen : q.buf.length = q.maxLen) (hc : q.count = q.maxLen) :
    q.raw.Perm q.toList := by
  rw [toList_eq_rotate q hlen hc]
  exact (List.rotate_perm _ _).symm

/-- … more precisely a rotation: `raw.rotate first = toList` -/
theorem raw_isRotated_toList (q : CQ β) (hlen : q.buf.length = q.maxLen) (hc : q.count = q.maxLen) :
    q.raw.IsRotated q.toList :=
  ⟨q.first, (toList_eq_rotate q hlen hc).symm⟩

/-- the window seen by streaming MMD (`np.array(queue)` with the `None`s dropped) is a permutation of the last `w`
values -/
theorem qinv_raw_perm (w : Nat) (vs : List β) (q : CQ β) (h : QInv w vs q) (hge : w ≤ vs.length) :
    (q.raw.filterMap id).Perm (vs.drop (vs.length - w)) := by
  have h1 := raw_perm_toList q (by rw [h.len, h.maxLen]) (by rw [h.count, h.maxLen]; omega)
  have h2 := h1.filterMap id
  rw [qinv_toList w vs q h hge, List.filterMap_map] at h2
  simpa using h2

example : (pushAll (CQ.init 3) [1, 2, 3, 4, 5]).raw = [some 4, some 5, some 3] := by decide
example : (pushAll (CQ.init 3) [1, 2, 3, 4, 5]).toList = [some 3, some 4, some 5] := by decide
end Queue

/-! ## 6. streaming MMD = batch MMD on the window -/
section StreamAny
variable {α : Type} [Num α] {X : Type}

/-- the detector state after the updates `vs` (outputs discarded, no reset) -/
def runS (k : X → X → α) (s : MMD.Stream α X) (vs : List X) : MMD.Stream α X :=
  vs.foldl (fun s v => (Stream.update k s v).2) s

@[simp] theorem runS_nil (k : X → X → α) (s : MMD.Stream α X) : runS k s [] = s := rfl
theorem runS_snoc (k : X → X → α) (s : MMD.Stream α X) (vs : List X) (v : X) :
    runS k s (vs ++ [v]) = (Stream.update k (runS k s vs) v).2 := by
  simp [runS, List.foldl_append]

/-- state invariant of the streaming detector after `fit ref` and the updates `vs` -/
structure SInv (k : X → X → α) (w : Nat) (cs : Option Nat) (ref vs : List X) (s : MMD.Stream α X) : Prop where
  n_eq : s.n = vs.length
  window_eq : s.window = w
  chunk_eq : s.chunkSize = cs
  ref_eq : s.ref = some ref
  pre_eq : s.pre = some (expectedK k (cs.getD ref.length) ref)
  q_inv : QInv w vs s.q

theorem sinv_fit (k : X → X → α) (w : Nat) (cs : Option Nat) (ref : List X) :
    SInv k w cs ref [] (Stream.fit k (Stream.init w cs) ref) :=
  ⟨rfl, rfl, rfl, rfl, rfl, qinv_init w⟩

/-- one `update` (every carrier): never an error, `none` during warm-up, afterwards the batch `mmd` of the reference
against the raw buffer with the fit-time reference term -/
theorem update_spec (k : X → X → α) (w : Nat) (hw : 0 < w) (cs : Option Nat) (ref vs : List X) (s : MMD.Stream α X)
    (h : SInv k w cs ref vs s) (v : X) :
    ∃ s', Stream.update k s v =
        (if vs.length + 1 < w then none
          else some (mmd k cs ref (s'.q.raw.filterMap id) (some (expectedK k (cs.getD ref.length) ref))), s') ∧
      SInv k w cs ref (vs ++ [v]) s' := by
  obtain ⟨q', he, hq, _⟩ := enqueue_spec w hw vs s.q h.q_inv v
  refine ⟨{ s with n := s.n + 1, q := q' }, ?_, ⟨?_, h.window_eq, h.chunk_eq, h.ref_eq, h.pre_eq, hq⟩⟩
  · simp only [Stream.update, he, h.n_eq, h.window_eq, h.ref_eq, h.chunk_eq, h.pre_eq]
    split <;> rfl
  · simp [h.n_eq]

theorem sinv_runS (k : X → X → α) (w : Nat) (hw : 0 < w) (cs : Option Nat) (ref vs : List X) :
    SInv k w cs ref vs (runS k (Stream.fit k (Stream.init w cs) ref) vs) := by
  induction vs using List.reverseRecOn with
  | nil => exact sinv_fit k w cs ref
  | append_singleton vs v ih =>
    obtain ⟨s', he, hs⟩ := update_spec k w hw cs ref vs _ ih v
    rw [runS_snoc, he]
    exact hs

/-- **stream_window (every carrier, hence IEEE doubles).**  After `fit ref` and the updates `vs`, the next update
`v` (update number `t = vs.length + 1`) returns `none` while `t < w`, and for `t ≥ w` returns
`some (mmd k cs ref W pre)` where `pre` is the reference term computed at fit time and `W` — the raw ring buffer — is a
permutation (in fact a rotation) of the last `w` values `v_{t-w+1} .. v_t`.  `0 < w` is needed: with `w = 0` the
queue has capacity `0` and `enqueue` raises. -/
theorem stream_window (k : X → X → α) (w : Nat) (hw : 0 < w) (cs : Option Nat) (ref vs : List X) (v : X) :
    let s0 : MMD.Stream α X := Stream.fit k (Stream.init w cs) ref
    let W := (runS k s0 (vs ++ [v])).q.raw.filterMap id
    (Stream.update k (runS k s0 vs) v).1 =
        (if vs.length + 1 < w then none
          else some (mmd k cs ref W (some (expectedK k (cs.getD ref.length) ref)))) ∧
      (w ≤ vs.length + 1 → W.Perm ((vs ++ [v]).drop (vs.length + 1 - w))) := by
  intro s0 W
  obtain ⟨s', he, hs⟩ := update_spec k w hw cs ref vs _ (sinv_runS k w hw cs ref vs) v
  have hW : W = s'.q.raw.filterMap id := by
    simp only [W, runS_snoc]; rw [he]
  refine ⟨by rw [he, hW], fun hge => ?_⟩
  have := qinv_raw_perm w (vs ++ [v]) s'.q hs.q_inv (by simpa using hge)
  rw [hW]
  simpa using this

/-- warm-up (every carrier): the first `w - 1` updates return `none` -/
theorem stream_warmup (k : X → X → α) (w : Nat) (hw : 0 < w) (cs : Option Nat) (ref vs : List X) (v : X)
    (ht : vs.length + 1 < w) :
    (Stream.update k (runS k (Stream.fit k (Stream.init w cs) ref) vs) v).1 = none := by
  have h := (stream_window k w hw cs ref vs v).1
  rw [h, if_pos ht]

/-- the window queue of the detector is exactly the circular queue fed with the stream (every carrier) -/
theorem stream_queue (k : X → X → α) (w : Nat) (hw : 0 < w) (cs : Option Nat) (ref vs : List X) :
    (runS k (Stream.fit k (Stream.init w cs) ref) vs).q = pushAll (CQ.init w) vs := by
  induction vs using List.reverseRecOn with
  | nil => rfl
  | append_singleton vs v ih =>
    have hs := sinv_runS k w hw cs ref vs
    obtain ⟨q', he, _, _⟩ := enqueue_spec w hw vs _ hs.q_inv v
    rw [runS_snoc, pushAll_snoc, ← ih, he]
    simp only [Stream.update, he, hs.ref_eq]
    split <;> rfl

/-- `update` before `fit` (or after `reset`) raises MissingFitError and leaves the state untouched:
the value is neither counted nor stored -/
theorem stream_update_unfitted (k : X → X → α) (s : MMD.Stream α X) (h : s.ref = none) (v : X) :
    s.updateErr = some .missingFit ∧ Stream.update k s v = (none, s) := by
  simp [Stream.updateErr, Stream.update, h]

/-- a fitted detector never raises MissingFitError; `reset()` unfits -/
theorem stream_updateErr_fit (k : X → X → α) (s : MMD.Stream α X) (xs : List X) :
    (Stream.fit k s xs).updateErr = none := by simp [Stream.updateErr, Stream.fit]
theorem stream_reset_unfits (s : MMD.Stream α X) : (Stream.reset s).updateErr = some .missingFit := by
  simp [Stream.updateErr, Stream.reset]

/-- rejected updates leave no trace: any number of updates on an unfitted detector is the identity -/
theorem stream_rejected_no_trace (k : X → X → α) (s : MMD.Stream α X) (h : s.ref = none) (junk : List X) :
    runS k s junk = s := by
  induction junk using List.reverseRecOn with
  | nil => rfl
  | append_singleton vs v ih => rw [runS_snoc, ih, (stream_update_unfitted k s h v).2]
end StreamAny

section StreamReal
variable {X : Type}

/-- **stream_eq_batch.**  Streaming MMD with window `w > 0`: update number `t = vs.length + 1` returns `none` for
`t < w` and otherwise the *batch* value `mmd k cs ref (last w values, in stream order) none`. -/
theorem stream_eq_batch (k : X → X → ℝ) (w : Nat) (hw : 0 < w) (cs : Option Nat) (ref vs : List X) (v : X) :
    (Stream.update k (runS k (Stream.fit k (Stream.init w cs) ref) vs) v).1 =
      if vs.length + 1 < w then none
      else some (mmd k cs ref ((vs ++ [v]).drop (vs.length + 1 - w)) none) := by
  obtain ⟨h, hp⟩ := stream_window k w hw cs ref vs v
  rw [h]
  split
  · rfl
  · rw [perm_invariant k cs (List.Perm.refl ref) (hp (by omega)), mmd_precomputed_eq]

/-- … and hence the unbiased estimator on (reference, last `w` values) -/
theorem stream_eq_unbiased (k : X → X → ℝ) (hk : ∀ x, k x x = 1) (w : Nat) (hw : 2 ≤ w) (cs : Option Nat)
    (hcs : ValidChunk cs) (ref vs : List X) (href : 2 ≤ ref.length) (v : X) (ht : w ≤ vs.length + 1) :
    (Stream.update k (runS k (Stream.fit k (Stream.init w cs) ref) vs) v).1 =
      some (unbiased k ref ((vs ++ [v]).drop (vs.length + 1 - w))) := by
  rw [stream_eq_batch k w (by omega), if_neg (by omega), mmd_eq_unbiased k hk cs hcs _ _ href]
  simp; omega

example (k : ℕ → ℕ → ℝ) :
    (Stream.update k (runS k (Stream.fit k (Stream.init 2 none) [1, 2]) [5, 6]) 7).1 = some (mmd k none [1, 2] [6, 7] none) := by
  simpa using stream_eq_batch k 2 (by omega) none [1, 2] [5, 6] 7

example : (Stream.update (rbf (1 : ℝ)) (runS (rbf 1) (Stream.fit (rbf 1) (Stream.init 2 (some 1)) [[1], [2]]) [[5], [6]]) [7]).1
    = some (unbiased (rbf (1 : ℝ)) [[1], [2]] [[6], [7]]) := by
  simpa using stream_eq_unbiased (rbf (1 : ℝ)) (rbf_self 1 one_ne_zero) 2 (by omega) (some 1) (by simp [ValidChunk])
    [[1], [2]] [[5], [6]] (by simp) [7] (by simp)
end StreamReal

/-! ## axioms -/
#print axioms chunks_flatten
#print axioms chunks_ne_nil
#print axioms chunks_length_le
#print axioms chunks_of_length_le
#print axioms chunks_eq_slices
#print axioms chunksAux_fuel
#print axioms chunk_sum
#print axioms chunk_sum'
#print axioms kernelSum_eq
#print axioms offDiag_eq
#print axioms kernelSum_self
#print axioms mmd_eq_unbiased
#print axioms mmd_diag_witness
#print axioms mmd_precomputed_eq
#print axioms mmd_precomputed_eq_unbiased
#print axioms mmd_chunk_invariant
#print axioms perm_invariant
#print axioms enqueue_spec
#print axioms qinv_pushAll
#print axioms qinv_toList
#print axioms raw_perm_toList
#print axioms raw_isRotated_toList
#print axioms rbf_self
#print axioms qinv_raw_perm
#print axioms stream_window
#print axioms stream_warmup
#print axioms stream_queue
#print axioms stream_eq_batch
#print axioms stream_eq_unbiased

end Frouros.C09
#print axioms Frouros.C09.stream_update_unfitted
#print axioms Frouros.C09.stream_updateErr_fit
#print axioms Frouros.C09.stream_reset_unfits
#print axioms Frouros.C09.stream_rejected_no_trace
