/-
  C14 — fit / compare / reset protocol of the batch data-drift detectors (`FrourosModel/Batch.lean`).

  Everything here is control flow: arbitrary data type `D`, arbitrary result type `R`, arbitrary
  statistic `stat : D → D → R` (no assumption on it), so the statements hold literally for the
  executable model over IEEE doubles.

  Modelling remark used throughout: an exception is an `Except.error e`, which carries *no* state.
  "A failing call does not change the detector" is therefore true by construction of the model (the
  caller keeps the state it had); it is made explicit in `session`, the fold that threads the state
  through a list of `compare` calls and keeps the old state after an error.
-/
import FrourosModel.Batch
namespace Frouros.C14
open Frouros Frouros.Batch

variable {D R : Type}

/-! ### The two dimension checks as explicit decision tables -/

/-- `checkCompare` has exactly two outcomes. -/
theorem checkCompare_cases (rs xs : List Nat) :
    checkCompare rs xs = .ok () ∨ checkCompare rs xs = .error .mismatchDimension := by
  unfold checkCompare; split <;> split <;> simp

/-- Explicit mismatch condition: both shapes have ≥ 2 dims and the second dims differ, or one of them
has < 2 dims and the numbers of dims differ.  (`rs[1]?`/`xs[1]?` are both `some _` under the length
hypotheses of the first disjunct, so no default value is involved.) -/
def Mismatch (rs xs : List Nat) : Prop :=
  (2 ≤ rs.length ∧ 2 ≤ xs.length ∧ rs[1]? ≠ xs[1]?) ∨
  ((rs.length < 2 ∨ xs.length < 2) ∧ rs.length ≠ xs.length)

theorem checkCompare_error_iff (rs xs : List Nat) :
    checkCompare rs xs = .error .mismatchDimension ↔ Mismatch rs xs := by
  unfold Mismatch
  match rs, xs with
  | [], xs => cases xs <;> simp [checkCompare]
  | [_], [] => simp [checkCompare]
  | [_], [_] => simp [checkCompare]
  | [_], _ :: _ :: _ => simp [checkCompare]
  | _ :: _ :: _, [] => simp [checkCompare]
  | _ :: _ :: _, [_] => simp [checkCompare]
  | _ :: r1 :: _, _ :: x1 :: _ => simp [checkCompare]; omega

theorem checkCompare_ok_iff (rs xs : List Nat) : checkCompare rs xs = .ok () ↔ ¬ Mismatch rs xs := by
  rw [← checkCompare_error_iff]
  rcases checkCompare_cases rs xs with h | h <;> simp [h]

/-- `checkSamples` never produces a dimension error (it produces `.insufficientSamples` / `.index`). -/
theorem checkSamples_cases (c : Cfg) (shape : List Nat) :
    checkSamples c shape = .ok () ∨ checkSamples c shape = .error .insufficientSamples ∨
      checkSamples c shape = .error .index := by
  unfold checkSamples
  split
  · simp
  · split
    · split <;> simp
    · simp

/-- exact table of the sample-count check (only CVM has `minSamples ≠ 0`) -/
theorem checkSamples_ok_iff (c : Cfg) (shape : List Nat) :
    checkSamples c shape = .ok () ↔ c.minSamples = 0 ∨ ∃ n rest, shape = n :: rest ∧ c.minSamples ≤ n := by
  unfold checkSamples
  by_cases h0 : c.minSamples = 0
  · simp [h0]
  · cases shape with
    | nil => simp [h0]
    | cons n rest =>
      by_cases hn : n < c.minSamples
      · simp [h0, hn]
      · simp [h0, hn]; omega

/-- Rejection condition of `_check_fit_dimensions`. -/
def FitRejected (k : Kind) (shape : List Nat) : Prop :=
  match k with
  | .univariate => (2 ≤ shape.length ∧ shape[1]? ≠ some 1) ∨ (shape.length < 2 ∧ shape.length ≠ 1)
  | .multivariate => (2 ≤ shape.length ∧ ∃ d, shape[1]? = some d ∧ d < 1) ∨ (shape.length < 2 ∧ shape.length < 1)

theorem checkFit_cases (k : Kind) (shape : List Nat) :
    checkFit k shape = .ok () ∨ checkFit k shape = .error .dimension := by
  unfold checkFit; split <;> split <;> simp

theorem checkFit_error_iff (k : Kind) (shape : List Nat) :
    checkFit k shape = .error .dimension ↔ FitRejected k shape := by
  unfold FitRejected
  match shape with
  | [] => cases k <;> simp [checkFit, dimCheck]
  | [_] => cases k <;> simp [checkFit, dimCheck]
  | _ :: d1 :: _ => cases k <;> simp [checkFit, dimCheck] <;> omega

theorem checkFit_ok_iff (k : Kind) (shape : List Nat) : checkFit k shape = .ok () ↔ ¬ FitRejected k shape := by
  rw [← checkFit_error_iff]
  rcases checkFit_cases k shape with h | h <;> simp [h]

/-! ### `fit` -/

/-- Unfolded form of `fit` on an array. -/
theorem fit_array (c : Cfg) (s : State D) (shape : List Nat) (data : D) :
    fit c s (.array shape data) =
      match checkFit c.kind shape, checkSamples c shape with
      | .error e, _ => .error e
      | .ok (), .error e => .error e
      | .ok (), .ok () => .ok ⟨some (shape, data)⟩ := by
  cases h1 : checkFit c.kind shape <;> cases h2 : checkSamples c shape <;>
    simp [fit, bind, Except.bind, pure, Except.pure, h1, h2]

theorem fit_nonArray (c : Cfg) (s : State D) : fit c s .nonArray = .error .other := rfl

/-- **`fit` decision table, dimension part**: `fit` raises `DimensionError` iff the input is an array
whose shape is rejected; univariate: `(ndim ≥ 2 ∧ shape[1] ≠ 1) ∨ (ndim < 2 ∧ ndim ≠ 1)`, multivariate:
`(ndim ≥ 2 ∧ shape[1] < 1) ∨ (ndim < 2 ∧ ndim < 1)` — see `FitRejected`. -/
theorem fit_dimension_iff (c : Cfg) (s : State D) (x : Input D) :
    fit c s x = .error .dimension ↔ ∃ shape data, x = .array shape data ∧ FitRejected c.kind shape := by
  cases x with
  | nonArray => simp [fit_nonArray]
  | array shape data =>
    have hE := checkFit_error_iff c.kind shape
    rw [fit_array]
    rcases checkFit_cases c.kind shape with h1 | h1 <;>
      rcases checkSamples_cases c shape with h2 | h2 | h2 <;> simp_all

theorem fit_univariate_dimension_iff (c : Cfg) (hk : c.kind = .univariate) (s : State D) (shape : List Nat) (data : D) :
    fit c s (.array shape data) = .error .dimension ↔
      (2 ≤ shape.length ∧ shape[1]? ≠ some 1) ∨ (shape.length < 2 ∧ shape.length ≠ 1) := by
  rw [fit_dimension_iff]; simp [FitRejected, hk]

theorem fit_multivariate_dimension_iff (c : Cfg) (hk : c.kind = .multivariate) (s : State D) (shape : List Nat) (data : D) :
    fit c s (.array shape data) = .error .dimension ↔
      (2 ≤ shape.length ∧ ∃ d, shape[1]? = some d ∧ d < 1) ∨ (shape.length < 2 ∧ shape.length < 1) := by
  rw [fit_dimension_iff]; simp [FitRejected, hk]

/-- `fit` succeeds iff the input is an array passing both checks, and then the new state holds exactly
that array as reference — whatever the previous state was (a refit overwrites). -/
theorem fit_ok_iff (c : Cfg) (s s' : State D) (x : Input D) :
    fit c s x = .ok s' ↔ ∃ shape data, x = .array shape data ∧ ¬ FitRejected c.kind shape ∧
      checkSamples c shape = .ok () ∧ s' = ⟨some (shape, data)⟩ := by
  cases x with
  | nonArray => simp [fit_nonArray]
  | array shape data =>
    have hE := checkFit_ok_iff c.kind shape
    rw [fit_array, eq_comm (b := Except.ok s')]
    rcases checkFit_cases c.kind shape with h1 | h1 <;>
      rcases checkSamples_cases c shape with h2 | h2 | h2 <;> simp_all
    constructor
    · intro h; exact ⟨shape, data, ⟨rfl, rfl⟩, hE, h2, h⟩
    · rintro ⟨_, _, ⟨rfl, rfl⟩, _, _, h⟩; exact h

/-- `fit` does not read the previous state. -/
theorem fit_ignores_state (c : Cfg) (s₁ s₂ : State D) (x : Input D) : fit c s₁ x = fit c s₂ x := by
  cases x <;> rfl

/-! ### `compare` -/

/-- Unfolded form of `compare` on a fitted state and an array. -/
theorem compare_array (stat : D → D → R) (c : Cfg) (s : State D) (rs : List Nat) (rd : D)
    (h : s.xref = some (rs, rd)) (shape : List Nat) (data : D) :
    compare stat c s (.array shape data) =
      match checkCompare rs shape, checkSamples c shape with
      | .error e, _ => .error e
      | .ok (), .error e => .error e
      | .ok (), .ok () => .ok (stat rd data, s) := by
  cases h1 : checkCompare rs shape <;> cases h2 : checkSamples c shape <;>
    simp [Batch.compare, h, bind, Except.bind, pure, Except.pure, h1, h2]

/-- **errors table, row 1**: an unfitted detector raises `MissingFitError`, whatever `x` is (array
or not, any shape). -/
theorem compare_unfitted (stat : D → D → R) (c : Cfg) (s : State D) (h : s.xref = none) (x : Input D) :
    compare stat c s x = .error .missingFit := by
  unfold Batch.compare; rw [h]

/-- converse: `MissingFitError` is raised only by an unfitted detector -/
theorem compare_missingFit_iff (stat : D → D → R) (c : Cfg) (s : State D) (x : Input D) :
    compare stat c s x = .error .missingFit ↔ s.xref = none := by
  constructor
  · intro h
    cases hx : s.xref with
    | none => rfl
    | some ref =>
      obtain ⟨rs, rd⟩ := ref
      cases x with
      | nonArray => simp [Batch.compare, hx] at h
      | array shape data =>
        rw [compare_array stat c s rs rd hx] at h
        rcases checkCompare_cases rs shape with h1 | h1 <;>
          rcases checkSamples_cases c shape with h2 | h2 | h2 <;> simp [h1, h2] at h
  · intro h; exact compare_unfitted stat c s h x

/-- **errors table, row 2**: fitted + non-array ⇒ error (the `AttributeError` on `.shape`); an error
value carries no state, so the detector is unchanged (see `session_eq`). -/
theorem compare_nonArray (stat : D → D → R) (c : Cfg) (s : State D) (ref : List Nat × D) (h : s.xref = some ref) :
    compare stat c s .nonArray = .error .other := by
  unfold Batch.compare; rw [h]

/-- **errors table, row 3**: `MismatchDimensionError` is raised iff the detector is fitted, `x` is an
array, and the shapes mismatch in the sense of `Mismatch`: (both have ≥ 2 dims and the second dims
differ) or (one of them has < 2 dims and the numbers of dims differ). -/
theorem compare_mismatch_iff (stat : D → D → R) (c : Cfg) (s : State D) (x : Input D) :
    compare stat c s x = .error .mismatchDimension ↔
      ∃ rs rd shape data, s.xref = some (rs, rd) ∧ x = .array shape data ∧ Mismatch rs shape := by
  cases hx : s.xref with
  | none => simp [compare_unfitted stat c s hx]
  | some ref =>
    obtain ⟨rs, rd⟩ := ref
    cases x with
    | nonArray => simp [compare_nonArray stat c s _ hx]
    | array shape data =>
      have hE := checkCompare_error_iff rs shape
      rw [compare_array stat c s rs rd hx]
      rcases checkCompare_cases rs shape with h1 | h1 <;>
        rcases checkSamples_cases c shape with h2 | h2 | h2 <;> simp_all

/-- the same, for a state known to be fitted and an array input -/
theorem compare_fitted_array_mismatch_iff (stat : D → D → R) (c : Cfg) (s : State D) (rs : List Nat) (rd : D)
    (h : s.xref = some (rs, rd)) (shape : List Nat) (data : D) :
    compare stat c s (.array shape data) = .error .mismatchDimension ↔
      (2 ≤ rs.length ∧ 2 ≤ shape.length ∧ rs[1]? ≠ shape[1]?) ∨
      ((rs.length < 2 ∨ shape.length < 2) ∧ rs.length ≠ shape.length) := by
  rw [compare_mismatch_iff]; simp [h, Mismatch]

/-- Success table: `compare` succeeds iff fitted, array, no mismatch and enough samples; the result is
`stat reference x` and the state is the input state. -/
theorem compare_ok_iff (stat : D → D → R) (c : Cfg) (s : State D) (x : Input D) (r : R) (s' : State D) :
    compare stat c s x = .ok (r, s') ↔
      ∃ rs rd shape data, s.xref = some (rs, rd) ∧ x = .array shape data ∧ ¬ Mismatch rs shape ∧
        checkSamples c shape = .ok () ∧ r = stat rd data ∧ s' = s := by
  cases hx : s.xref with
  | none => simp [compare_unfitted stat c s hx]
  | some ref =>
    obtain ⟨rs, rd⟩ := ref
    cases x with
    | nonArray => simp [compare_nonArray stat c s _ hx]
    | array shape data =>
      have hE := checkCompare_ok_iff rs shape
      rw [compare_array stat c s rs rd hx, eq_comm (b := Except.ok (r, s'))]
      rcases checkCompare_cases rs shape with h1 | h1 <;>
        rcases checkSamples_cases c shape with h2 | h2 | h2 <;> simp_all
      constructor
      · rintro ⟨h, h'⟩; exact ⟨rs, rd, ⟨rfl, rfl⟩, shape, data, ⟨rfl, rfl⟩, hE, h2, h, h'⟩
      · rintro ⟨_, _, ⟨rfl, rfl⟩, _, _, ⟨rfl, rfl⟩, _, _, h, h'⟩; exact ⟨h, h'⟩

/-- **compare_pure**: `compare` never changes the state. -/
theorem compare_pure (stat : D → D → R) (c : Cfg) (s s' : State D) (x : Input D) (r : R)
    (h : compare stat c s x = .ok (r, s')) : s' = s := by
  rw [compare_ok_iff] at h
  obtain ⟨_, _, _, _, _, _, _, _, _, h⟩ := h
  exact h

/-- the observable outcome of a `compare` call (result or exception), without the state -/
def outcome (stat : D → D → R) (c : Cfg) (s : State D) (x : Input D) : Except Err R :=
  (compare stat c s x).map Prod.fst

/-- **compare_fun**: the outcome depends only on `(reference, x)`: two states with the same
reference give the same outcome. -/
theorem compare_fun (stat : D → D → R) (c : Cfg) (s₁ s₂ : State D) (h : s₁.xref = s₂.xref) (x : Input D) :
    outcome stat c s₁ x = outcome stat c s₂ x := by
  unfold outcome Batch.compare
  rw [h]
  cases s₂.xref with
  | none => rfl
  | some ref =>
    cases x with
    | nonArray => rfl
    | array shape data =>
      cases h1 : checkCompare ref.1 shape <;> cases h2 : checkSamples c shape <;>
        simp [bind, Except.bind, pure, Except.pure, Except.map, h1, h2]

/-- A session: the calls `compare x₁, compare x₂, …` issued one after the other on the same detector
object, threading the state exactly as Python does (after an exception the object is the one before
the call).  Returns the final state and the list of outcomes. -/
def session (stat : D → D → R) (c : Cfg) (s₀ : State D) (xs : List (Input D)) : State D × List (Except Err R) :=
  xs.foldl (fun acc x =>
    match compare stat c acc.1 x with
    | .ok (r, s') => (s', acc.2 ++ [.ok r])
    | .error e => (acc.1, acc.2 ++ [.error e])) (s₀, [])

theorem session_aux (stat : D → D → R) (c : Cfg) (s₀ : State D) (xs : List (Input D)) (acc : List (Except Err R)) :
    xs.foldl (fun (acc : State D × List (Except Err R)) x =>
      match compare stat c acc.1 x with
      | .ok (r, s') => (s', acc.2 ++ [.ok r])
      | .error e => (acc.1, acc.2 ++ [.error e])) (s₀, acc)
      = (s₀, acc ++ xs.map (outcome stat c s₀)) := by
  induction xs generalizing acc with
  | nil => simp
  | cons x xs ih =>
    rw [List.foldl_cons]
    cases hc : compare stat c s₀ x with
    | error e =>
      simp only []
      rw [ih]
      simp [outcome, hc, Except.map]
    | ok p =>
      obtain ⟨r, s'⟩ := p
      have hs : s' = s₀ := compare_pure stat c s₀ s' x r hc
      subst hs
      simp only []
      rw [ih]
      simp [outcome, hc, Except.map]

/-- **compare_reorder** (main form): a session of `compare` calls on any state (fitted or not) leaves
the state unchanged and returns exactly the list of outcomes of each call made *independently* on the
initial state.  Hence no call influences another one. -/
theorem session_eq (stat : D → D → R) (c : Cfg) (s₀ : State D) (xs : List (Input D)) :
    session stat c s₀ xs = (s₀, xs.map (outcome stat c s₀)) := by
  unfold session; rw [session_aux]; simp

/-- **compare_reorder**, permutation form: reordering the calls reorders the outcomes in the same way
(the multiset of (input, outcome) pairs is the same). -/
theorem compare_reorder (stat : D → D → R) (c : Cfg) (s₀ : State D) (xs ys : List (Input D)) (h : xs.Perm ys) :
    (xs.zip (session stat c s₀ xs).2).Perm (ys.zip (session stat c s₀ ys).2) := by
  simp only [session_eq]
  have hz : ∀ l : List (Input D), l.zip (l.map (outcome stat c s₀)) = l.map (fun x => (x, outcome stat c s₀ x)) := by
    intro l; induction l with
    | nil => rfl
    | cons a l ih => simp [ih]
  rw [hz, hz]
  exact h.map _

/-- **compare_reorder**, position form: the `i`-th outcome of a session is the outcome of the `i`-th
input computed in isolation — irrespective of what was called before, how often, or in what order. -/
theorem session_getElem (stat : D → D → R) (c : Cfg) (s₀ : State D) (xs : List (Input D)) (i : Nat) :
    (session stat c s₀ xs).2[i]? = xs[i]?.map (outcome stat c s₀) := by
  simp [session_eq]

/-- repetition: the same input always gets the same outcome within a session -/
theorem session_repeat (stat : D → D → R) (c : Cfg) (s₀ : State D) (xs : List (Input D)) (i j : Nat) (x : Input D)
    (hi : xs[i]? = some x) (hj : xs[j]? = some x) :
    (session stat c s₀ xs).2[i]? = (session stat c s₀ xs).2[j]? := by
  simp [session_getElem, hi, hj]

/-! ### `reset` -/

/-- **reset_unfits**: after `reset`, `compare` raises `MissingFitError`. -/
theorem reset_unfits (stat : D → D → R) (c : Cfg) (s : State D) (x : Input D) :
    compare stat c (reset s) x = .error .missingFit := rfl

theorem reset_eq_init (s : State D) : reset s = init := rfl

/-! ### Non-vacuity -/

/-- **fit_then_compare_ok**: an accepted `fit` followed by `compare` on a compatible array returns
`stat reference x` and keeps the fitted state. -/
theorem fit_then_compare_ok (stat : D → D → R) (c : Cfg) (s : State D) (shape shape' : List Nat) (d d' : D)
    (hfit : ¬ FitRejected c.kind shape) (hn : checkSamples c shape = .ok ())
    (hcmp : ¬ Mismatch shape shape') (hn' : checkSamples c shape' = .ok ()) :
    ∃ s', fit c s (.array shape d) = .ok s' ∧ compare stat c s' (.array shape' d') = .ok (stat d d', s') := by
  refine ⟨⟨some (shape, d)⟩, ?_, ?_⟩
  · rw [fit_ok_iff]; exact ⟨shape, d, rfl, hfit, hn, rfl⟩
  · rw [compare_ok_iff]; exact ⟨shape, d, shape', d', rfl, rfl, hcmp, hn', rfl, rfl⟩

/-- concrete instance: univariate detector, reference of 5 samples, test batch of 3 samples -/
example : ∃ s', fit (D := List Nat) ⟨.univariate, 0⟩ init (.array [5] [1, 2, 3, 4, 5]) = .ok s' ∧
    compare (fun a b => a.length + b.length) ⟨.univariate, 0⟩ s' (.array [3] [7, 8, 9]) = .ok (8, s') :=
  ⟨⟨some ([5], [1, 2, 3, 4, 5])⟩, rfl, rfl⟩

/-- concrete instances of the error rows -/
example : compare (D := Nat) (fun a b => a + b) ⟨.univariate, 0⟩ init (.array [3] 0) = .error .missingFit := rfl
example : compare (D := Nat) (fun a b => a + b) ⟨.multivariate, 0⟩ ⟨some ([5, 2], 0)⟩ (.array [3, 3] 0)
    = .error .mismatchDimension := rfl
example : compare (D := Nat) (fun a b => a + b) ⟨.univariate, 0⟩ ⟨some ([5], 0)⟩ (.array [3, 1] 0)
    = .error .mismatchDimension := rfl
example : fit (D := Nat) ⟨.univariate, 0⟩ init (.array [5, 2] 0) = .error .dimension := rfl
example : fit (D := Nat) ⟨.multivariate, 0⟩ init (.array [] 0) = .error .dimension := rfl
example : Mismatch [5, 2] [3, 3] := by unfold Mismatch; simp
example : ¬ Mismatch [5] [3] := by unfold Mismatch; simp
example : FitRejected .univariate [5, 2] := by unfold FitRejected; simp
example : ¬ FitRejected .univariate [5] := by unfold FitRejected; simp

end Frouros.C14

#print axioms Frouros.C14.compare_pure
#print axioms Frouros.C14.compare_fun
#print axioms Frouros.C14.session_eq
#print axioms Frouros.C14.compare_reorder
#print axioms Frouros.C14.session_getElem
#print axioms Frouros.C14.compare_unfitted
#print axioms Frouros.C14.compare_missingFit_iff
#print axioms Frouros.C14.compare_nonArray
#print axioms Frouros.C14.compare_mismatch_iff
#print axioms Frouros.C14.compare_ok_iff
#print axioms Frouros.C14.fit_dimension_iff
#print axioms Frouros.C14.fit_univariate_dimension_iff
#print axioms Frouros.C14.fit_multivariate_dimension_iff
#print axioms Frouros.C14.fit_ok_iff
#print axioms Frouros.C14.reset_unfits
#print axioms Frouros.C14.fit_then_compare_ok
