/-
  C12 — two-sample test detectors: the repo-owned glue and the simple statistics.
  Model: `FrourosModel/Tests2.lean` (+ `KS.hPlus/hMinus/hTwoSided/devs/countLe` of `FrourosModel/KS.lean`), unchanged.

  1. keyword forwarding (any value type `V`)
       `pyCall_typeError_iff`, `pyCall_ok`, `pyCall_spec`      decision table of `f(k=v, **kwargs)`
       `forward_ok` (+ `forward_never_typeError`, `forward_ok_given`, `forward_ok_default`)   repaired wiring
       `forward_get_iff`, `forward_get_ok`, `forward_get_witness`                             pre-repair wiring (defect)
  2. chi-square
       `freqTable_spec`, `freqTable_length`, `freqTable_row_sums`, `freqTable_col_pos`  (any `κ` with `DecidableEq`)
       `chisq_relabel`, `chisq_relabel_stat`                     injective relabelling (statistic: any carrier)
       `chisq_pearson`, `chisq_yates`, `chisq_corr_irrelevant`   closed forms (ℝ)
       `chisq_column_perm`, `chisq_swap`, `chisq_nonneg`, `chisq_nonneg_freqTable`   (ℝ)
  3. Mann-Whitney: `mwu_perm` (any carrier), `mwu_monotone`, `mwu_swap` (ℝ)
  4. Welch (ℝ): `welch_swap`, `welch_perm`, `welch_shift_scale`, `welchDf_shift_scale`
  5. Kuiper: `hTwoSided_eq_max`, `kuiper_ge_ks`, `kuiper_eq_ks_iff` (any carrier), `kuiper_ne_ks_witness`,
       `ks_rank_invariant` (ℝ)
-/
import Mathlib.Tactic
import FrourosProofs.RealNum
import FrourosModel.Tests2

namespace Frouros.C12
open Frouros Frouros.Tests2 Frouros.RealNum

/-! ## 1. keyword forwarding -/
section Forward
variable {V : Type}

/-- the keys of a keyword list -/
abbrev keys (kws : List (String × V)) : List String := kws.map (·.1)

theorem any_key_iff (kwargs : List (String × V)) (key : String) :
    kwargs.any (fun k => k.1 == key) = true ↔ key ∈ keys kwargs := by
  simp only [List.any_eq_true, beq_iff_eq, keys, List.mem_map]

/-- `pyCall` raises exactly when an explicit keyword is repeated in `**kwargs` -/
theorem pyCall_typeError_iff (explicit kwargs : List (String × V)) :
    pyCall explicit kwargs = .typeError ↔ ∃ k ∈ keys explicit, k ∈ keys kwargs := by
  unfold pyCall
  split
  · rename_i h
    simp only [true_iff]
    rw [List.any_eq_true] at h
    obtain ⟨e, he, hk⟩ := h
    exact ⟨e.1, List.mem_map.mpr ⟨e, he, rfl⟩, (any_key_iff kwargs e.1).mp hk⟩
  · rename_i h
    simp only [reduceCtorEq, false_iff]
    rintro ⟨k, hk, hk'⟩
    apply h
    obtain ⟨e, he, rfl⟩ := List.mem_map.mp hk
    exact List.any_eq_true.mpr ⟨e, he, (any_key_iff kwargs e.1).mpr hk'⟩

/-- … and otherwise it calls with the explicit keywords followed by the `kwargs`, unchanged and in order -/
theorem pyCall_ok (explicit kwargs : List (String × V))
    (h : ∀ k ∈ keys explicit, k ∉ keys kwargs) :
    pyCall explicit kwargs = .call (explicit ++ kwargs) := by
  unfold pyCall
  split
  · rename_i h'
    rw [List.any_eq_true] at h'
    obtain ⟨e, he, hk⟩ := h'
    exact absurd ((any_key_iff kwargs e.1).mp hk) (h e.1 (List.mem_map.mpr ⟨e, he, rfl⟩))
  · rfl

/-- complete characterisation of `pyCall` (decision table) -/
theorem pyCall_spec (explicit kwargs : List (String × V)) :
    ((∃ k ∈ keys explicit, k ∈ keys kwargs) ∧ pyCall explicit kwargs = .typeError) ∨
    ((∀ k ∈ keys explicit, k ∉ keys kwargs) ∧ pyCall explicit kwargs = .call (explicit ++ kwargs)) := by
  by_cases h : ∃ k ∈ keys explicit, k ∈ keys kwargs
  · exact Or.inl ⟨h, (pyCall_typeError_iff _ _).mpr h⟩
  · have h' : ∀ k ∈ keys explicit, k ∉ keys kwargs := fun k hk hk' => h ⟨k, hk, hk'⟩
    exact Or.inr ⟨h', pyCall_ok _ _ h'⟩

theorem find?_none_iff_not_key (kwargs : List (String × V)) (key : String) :
    kwargs.find? (·.1 == key) = none ↔ key ∉ keys kwargs := by
  rw [List.find?_eq_none]
  simp only [beq_iff_eq, keys, List.mem_map, not_exists, not_and]

theorem filter_ne_of_not_key (kwargs : List (String × V)) (key : String) (h : key ∉ keys kwargs) :
    kwargs.filter (·.1 != key) = kwargs := by
  rw [List.filter_eq_self]
  intro a ha
  simp only [bne_iff_ne, ne_eq]
  intro e
  exact h (List.mem_map.mpr ⟨a, ha, e⟩)

theorem key_not_mem_filter (kwargs : List (String × V)) (key : String) :
    key ∉ keys (kwargs.filter (·.1 != key)) := by
  simp only [keys, List.mem_map, List.mem_filter, bne_iff_ne, ne_eq, not_exists, not_and, and_imp]
  intro x _ hx; exact hx

/-- `pop` returns the value `get` would return, and the other options unchanged and in order -/
theorem pop_eq (kwargs : List (String × V)) (key : String) (dflt : V) :
    pop kwargs key dflt = (Tests2.get kwargs key dflt, kwargs.filter (·.1 != key)) := by
  unfold pop Tests2.get
  cases h : kwargs.find? (·.1 == key) with
  | none => simp only [filter_ne_of_not_key kwargs key ((find?_none_iff_not_key kwargs key).mp h)]
  | some p => rfl

/-- `get` returns the user's value (the first and, for a dict, only entry with that key) if given … -/
theorem get_of_mem (kwargs : List (String × V)) (key : String) (dflt v : V)
    (hnd : (keys kwargs).Nodup) (h : (key, v) ∈ kwargs) : Tests2.get kwargs key dflt = v := by
  unfold Tests2.get
  induction kwargs with
  | nil => simp at h
  | cons p rest ih =>
    rw [List.find?_cons]
    by_cases hp : p.1 = key
    · simp only [hp, beq_self_eq_true]
      rcases List.mem_cons.mp h with h | h
      · rw [← h]
      · exfalso
        simp only [keys, List.map_cons, List.nodup_cons, List.mem_map, not_exists, not_and] at hnd
        exact hnd.1 (key, v) h hp.symm
    · have : (p.1 == key) = false := by simpa using hp
      simp only [this]
      rcases List.mem_cons.mp h with h | h
      · exact absurd (by rw [← h]) hp
      · exact ih (List.nodup_cons.mp hnd).2 h

/-- … else the default -/
theorem get_of_not_key (kwargs : List (String × V)) (key : String) (dflt : V)
    (h : key ∉ keys kwargs) : Tests2.get kwargs key dflt = dflt := by
  unfold Tests2.get
  rw [(find?_none_iff_not_key kwargs key).mpr h]

/-- **C12.1 (`forward_ok`)** the repaired wiring never raises (for any `kwargs`; in particular for the duplicate-free
keyword lists a Python dict can hold) and calls with `alternative` first — the user's value if given, else the
default (`get_of_mem` / `get_of_not_key`) — followed by the other options unchanged and in order. -/
theorem forward_ok (kwargs : List (String × V)) (dflt : V) :
    forwardPop kwargs dflt =
      .call (("alternative", Tests2.get kwargs "alternative" dflt) :: kwargs.filter (·.1 != "alternative")) := by
  unfold forwardPop
  rw [pop_eq]
  simp only
  rw [pyCall_ok]
  · rfl
  · intro k hk
    simp only [keys, List.map_cons, List.map_nil, List.mem_singleton] at hk
    subst hk
    exact key_not_mem_filter kwargs "alternative"

theorem forward_never_typeError (kwargs : List (String × V)) (dflt : V) :
    forwardPop kwargs dflt ≠ .typeError := by
  rw [forward_ok]; exact fun h => by cases h

/-- the form asked for in the task: for a dict (`Nodup` keys), with the user's value `v` -/
theorem forward_ok_given (kwargs : List (String × V)) (dflt v : V) (hnd : (keys kwargs).Nodup)
    (h : ("alternative", v) ∈ kwargs) :
    forwardPop kwargs dflt = .call (("alternative", v) :: kwargs.filter (·.1 != "alternative")) := by
  rw [forward_ok, get_of_mem kwargs _ dflt v hnd h]

theorem forward_ok_default (kwargs : List (String × V)) (dflt : V) (h : "alternative" ∉ keys kwargs) :
    forwardPop kwargs dflt = .call (("alternative", dflt) :: kwargs) := by
  rw [forward_ok, get_of_not_key kwargs _ dflt h, filter_ne_of_not_key kwargs _ h]

/-- **C12.1 (`forward_get_iff`)** the pre-repair wiring raises `TypeError` exactly when the user passes `alternative` -/
theorem forward_get_iff (kwargs : List (String × V)) (dflt : V) :
    forwardGet kwargs dflt = .typeError ↔ "alternative" ∈ keys kwargs := by
  unfold forwardGet
  rw [pyCall_typeError_iff]
  simp [keys]

theorem forward_get_ok (kwargs : List (String × V)) (dflt : V) (h : "alternative" ∉ keys kwargs) :
    forwardGet kwargs dflt = .call (("alternative", dflt) :: kwargs) := by
  unfold forwardGet
  rw [pyCall_ok, get_of_not_key kwargs _ dflt h]
  · rfl
  · intro k hk
    simp only [keys, List.map_cons, List.map_nil, List.mem_singleton] at hk
    subst hk; exact h

/-- concrete witness of the defect: `MannWhitneyUTest(alternative="less")` raised -/
theorem forward_get_witness :
    forwardGet [("alternative", "less")] "two-sided" = .typeError ∧
    forwardPop [("alternative", "less")] "two-sided" = .call [("alternative", "less")] := by
  constructor
  · rw [forward_get_iff]; simp [keys]
  · rw [forward_ok]; rfl

example : forwardPop [("method", 1), ("alternative", 2), ("axis", 3)] 0
    = .call [("alternative", 2), ("method", 1), ("axis", 3)] := by
  rw [forward_ok]; rfl

end Forward

/-! ## 2. chi-square: the contingency table -/
section ChiTable
variable {κ κ' : Type} [DecidableEq κ] [DecidableEq κ']

theorem mem_categories (l : List κ) (c : κ) : c ∈ categories l ↔ c ∈ l := List.mem_eraseDups

theorem categories_cons (a : κ) (l : List κ) :
    categories (a :: l) = a :: categories (l.filter (fun b => !b == a)) := by
  unfold categories; rw [List.eraseDups_cons]

/-- every category is listed once -/
theorem categories_nodup (l : List κ) : (categories l).Nodup := by
  induction h : l.length using Nat.strong_induction_on generalizing l with
  | _ n ih =>
    cases l with
    | nil => simp [categories]
    | cons a as =>
      rw [categories_cons, List.nodup_cons]
      refine ⟨?_, ih _ ?_ _ rfl⟩
      · rw [mem_categories]; simp
      · subst h
        exact Nat.lt_succ_of_le (List.length_filter_le _ _)

/-- relabelling by an injective map commutes with "distinct values in order of first appearance" -/
theorem categories_map (g : κ → κ') (hg : Function.Injective g) (l : List κ) :
    categories (l.map g) = (categories l).map g := by
  induction h : l.length using Nat.strong_induction_on generalizing l with
  | _ n ih =>
    cases l with
    | nil => simp [categories]
    | cons a as =>
      rw [List.map_cons, categories_cons, categories_cons, List.map_cons, List.filter_map]
      have hf : ((fun b => !b == g a) ∘ g) = (fun b => !b == a) := by
        funext b
        simp only [Function.comp, Bool.not_eq_eq_eq_not, Bool.not_not]
        by_cases hb : b = a
        · subst hb; simp
        · have : g b ≠ g a := fun e => hb (hg e)
          simp [hb, this]
      rw [hf, ih _ ?_ _ rfl]
      subst h
      exact Nat.lt_succ_of_le (List.length_filter_le _ _)

theorem sum_indicator (cs : List κ) (x : κ) :
    (cs.map (fun c => if x = c then 1 else 0)).sum = cs.count x := by
  induction cs with
  | nil => rfl
  | cons c cs ih =>
    rw [List.map_cons, List.sum_cons, ih, List.count_cons]
    by_cases h : x = c
    · subst h; simp; omega
    · have : ¬ c = x := fun e => h e.symm
      simp [h, this]

/-- summing the multiplicities of `l` over a duplicate-free list that covers `l` gives `l.length` -/
theorem sum_count_of_nodup (cs l : List κ) (hnd : cs.Nodup) (h : ∀ x ∈ l, x ∈ cs) :
    (cs.map (fun c => l.count c)).sum = l.length := by
  induction l with
  | nil => simp
  | cons x l ih =>
    have e : (fun c => (x :: l).count c) = fun c => l.count c + (if x = c then 1 else 0) := by
      funext c; rw [List.count_cons]; simp only [beq_iff_eq]
    rw [e, List.sum_map_add, ih (fun y hy => h y (List.mem_cons_of_mem _ hy)), sum_indicator,
      List.count_eq_one_of_mem hnd (h x List.mem_cons_self), List.length_cons]

/-- **C12.2 (`freqTable_spec`)** the table has one column per distinct category of `ref ++ test` (each exactly once,
in order of first appearance), holding `(count in test, count in ref)` -/
theorem freqTable_spec (ref test : List κ) :
    ∃ cats : List κ, cats.Nodup ∧ (∀ c, c ∈ cats ↔ c ∈ ref ∨ c ∈ test) ∧
      (∀ c, c ∈ ref ∨ c ∈ test → cats.count c = 1) ∧
      freqTable ref test = cats.map (fun c => (test.count c, ref.count c)) := by
  refine ⟨categories (ref ++ test), categories_nodup _, ?_, ?_, rfl⟩
  · intro c; rw [mem_categories, List.mem_append]
  · intro c hc
    exact List.count_eq_one_of_mem (categories_nodup _) ((mem_categories _ _).mpr (List.mem_append.mpr hc))

/-- the number of columns is the number of distinct categories -/
theorem freqTable_length (ref test : List κ) :
    (freqTable ref test).length = (ref ++ test).toFinset.card := by
  unfold freqTable
  rw [List.length_map, ← List.toFinset_card_of_nodup (categories_nodup _)]
  congr 1
  ext c
  simp only [List.mem_toFinset, mem_categories]

/-- **C12.2 (`freqTable_row_sums`)** the first row sums to the test-sample size, the second to the reference size -/
theorem freqTable_row_sums (ref test : List κ) :
    ((freqTable ref test).map (·.1)).sum = test.length ∧
    ((freqTable ref test).map (·.2)).sum = ref.length := by
  unfold freqTable
  simp only [List.map_map, Function.comp_def]
  constructor
  · exact sum_count_of_nodup _ _ (categories_nodup _)
      (fun x hx => (mem_categories _ _).mpr (List.mem_append_right _ hx))
  · exact sum_count_of_nodup _ _ (categories_nodup _)
      (fun x hx => (mem_categories _ _).mpr (List.mem_append_left _ hx))

/-- every column of the table is non-empty (each listed category occurs in one of the samples) -/
theorem freqTable_col_pos (ref test : List κ) : ∀ p ∈ freqTable ref test, 0 < p.1 + p.2 := by
  intro p hp
  unfold freqTable at hp
  obtain ⟨c, hc, rfl⟩ := List.mem_map.mp hp
  rw [mem_categories, List.mem_append] at hc
  rcases hc with hc | hc
  · have := List.count_pos_iff.mpr hc; simp only; omega
  · have := List.count_pos_iff.mpr hc; simp only; omega

/-- **C12.2 (`chisq_relabel`)** an injective relabelling of the categories gives the same table, column by column
in the same order -/
theorem chisq_relabel (g : κ → κ') (hg : Function.Injective g) (ref test : List κ) :
    freqTable (ref.map g) (test.map g) = freqTable ref test := by
  unfold freqTable
  rw [← List.map_append, categories_map g hg, List.map_map]
  apply List.map_congr_left
  intro c _
  simp only [Function.comp, List.count_map_of_injective _ g hg]

/-- … hence the statistic is unchanged (any carrier, any correction flag) -/
theorem chisq_relabel_stat {α : Type} [Num α] (g : κ → κ') (hg : Function.Injective g) (ref test : List κ)
    (corr : Bool) :
    (chi2Stat corr (freqTable (ref.map g) (test.map g)) : α) = chi2Stat corr (freqTable ref test) := by
  rw [chisq_relabel g hg]

example : freqTable ["a", "b", "a", "c"] ["b", "b", "d"] = [(0, 2), (2, 1), (0, 1), (1, 0)] := by decide
example : freqTable ([0, 1, 0, 2].map (· + 10)) ([1, 1, 3].map (· + 10)) = freqTable [0, 1, 0, 2] [1, 1, 3] :=
  chisq_relabel (· + 10) (fun a b h => by simpa using h) _ _

end ChiTable

/-! ## 2b. chi-square: the statistic (ℝ) -/
section ChiStat

theorem foldl_add_eq (l : List ℝ) (a : ℝ) : l.foldl (· + ·) a = a + l.sum := by
  induction l generalizing a with
  | nil => simp
  | cons x l ih => rw [List.foldl_cons, ih, List.sum_cons]; ring

/-- the model's left fold is the ordinary sum at ℝ -/
theorem sum_eq (l : List ℝ) : Tests2.sum l = l.sum := by
  unfold Tests2.sum; rw [foldl_add_eq]; simp

/-- expected count `E = rowSum·colSum/total` -/
noncomputable def expected (rowSum colSum tot : ℕ) : ℝ := (rowSum : ℝ) * colSum / tot

/-- Pearson's `Σ_cells (O − E)²/E` of a `2×k` table given as its list of columns -/
noncomputable def pearson (table : List (ℕ × ℕ)) : ℝ :=
  let r1 := (table.map (·.1)).sum
  let r2 := (table.map (·.2)).sum
  (table.map (fun p => ((p.1 : ℝ) - expected r1 (p.1 + p.2) (r1 + r2)) ^ 2 / expected r1 (p.1 + p.2) (r1 + r2)
                     + ((p.2 : ℝ) - expected r2 (p.1 + p.2) (r1 + r2)) ^ 2 / expected r2 (p.1 + p.2) (r1 + r2))).sum

/-- **C12.2 (`chisq_pearson`)** without the continuity correction the model computes Pearson's statistic -/
theorem chisq_pearson (table : List (ℕ × ℕ)) : (chi2Stat false table : ℝ) = pearson table := by
  unfold chi2Stat pearson expected
  simp only [Bool.false_and, Bool.false_eq_true, if_false, sum_eq, ofNat_eq, Nat.cast_add]
  congr 1
  apply List.map_congr_left
  intro p _
  ring

/-- the correction is only applied to `2×2` tables -/
theorem chisq_corr_irrelevant (table : List (ℕ × ℕ)) (h : table.length ≠ 2) :
    (chi2Stat true table : ℝ) = chi2Stat false table := by
  unfold chi2Stat
  have : (table.length == 2) = false := by simpa using h
  simp only [this, Bool.and_false]

/-- Yates' continuity correction as the code applies it: each `|O − E|` is reduced by `1/2`, but never below `0` -/
theorem yates_cell (o e : ℝ) :
    ((if Num.lt Num.zero (e - o) then
          o + (if Num.lt (Num.abs (e - o)) (Num.ofDec 5 1) then Num.abs (e - o) else Num.ofDec 5 1)
        else if Num.lt (e - o) Num.zero then
          o - (if Num.lt (Num.abs (e - o)) (Num.ofDec 5 1) then Num.abs (e - o) else Num.ofDec 5 1)
        else o) - e) *
    ((if Num.lt Num.zero (e - o) then
          o + (if Num.lt (Num.abs (e - o)) (Num.ofDec 5 1) then Num.abs (e - o) else Num.ofDec 5 1)
        else if Num.lt (e - o) Num.zero then
          o - (if Num.lt (Num.abs (e - o)) (Num.ofDec 5 1) then Num.abs (e - o) else Num.ofDec 5 1)
        else o) - e)
      = (max 0 (|o - e| - 1 / 2)) ^ 2 := by
  simp only [lt_iff, abs_eq, ofDec_eq, zero_eq]
  have h5 : ((5 : ℕ) : ℝ) / 10 ^ 1 = 1 / 2 := by norm_num
  rw [h5, abs_sub_comm o e]
  rcases abs_cases (e - o) with ⟨ha, hs⟩ | ⟨ha, hs⟩ <;>
    rcases max_cases 0 (|e - o| - 1 / 2) with ⟨hm, hm'⟩ | ⟨hm, hm'⟩ <;>
    rw [hm] <;> rw [ha] at * <;> split_ifs <;>
    first | (exfalso; linarith) | (ring_nf; done) | nlinarith

/-- the Yates-corrected statistic `Σ_cells max(0, |O − E| − ½)²/E` -/
noncomputable def pearsonYates (table : List (ℕ × ℕ)) : ℝ :=
  let r1 := (table.map (·.1)).sum
  let r2 := (table.map (·.2)).sum
  (table.map (fun p =>
      (max 0 (|(p.1 : ℝ) - expected r1 (p.1 + p.2) (r1 + r2)| - 1 / 2)) ^ 2 / expected r1 (p.1 + p.2) (r1 + r2)
    + (max 0 (|(p.2 : ℝ) - expected r2 (p.1 + p.2) (r1 + r2)| - 1 / 2)) ^ 2 / expected r2 (p.1 + p.2) (r1 + r2))).sum

/-- **C12.2 (`chisq_yates`)** for a `2×2` table with `correction = True` the model computes the Yates-corrected
statistic -/
theorem chisq_yates (table : List (ℕ × ℕ)) (h : table.length = 2) :
    (chi2Stat true table : ℝ) = pearsonYates table := by
  unfold chi2Stat pearsonYates expected
  simp only [h, beq_self_eq_true, Bool.and_self, if_true, sum_eq, yates_cell, ofNat_eq, Nat.cast_add]

/-- **C12.2 (`chisq_column_perm`)** the statistic does not depend on the order of the columns (the Python code
iterates over a `set`, whose order is arbitrary) -/
theorem chisq_column_perm (corr : Bool) {t t' : List (ℕ × ℕ)} (h : t.Perm t') :
    (chi2Stat corr t : ℝ) = chi2Stat corr t' := by
  unfold chi2Stat
  have h1 : (t.map (·.1)).sum = (t'.map (·.1)).sum := (h.map _).sum_eq
  have h2 : (t.map (·.2)).sum = (t'.map (·.2)).sum := (h.map _).sum_eq
  simp only [h1, h2, h.length_eq, sum_eq]
  exact (h.map _).sum_eq

/-- **C12.2 (`chisq_swap`)** swapping the roles of reference and test sample (the two rows) leaves the statistic
unchanged -/
theorem chisq_swap (corr : Bool) (t : List (ℕ × ℕ)) :
    (chi2Stat corr (t.map Prod.swap) : ℝ) = chi2Stat corr t := by
  unfold chi2Stat
  have h1 : ((t.map Prod.swap).map (·.1)).sum = (t.map (·.2)).sum := by
    rw [List.map_map]; rfl
  have h2 : ((t.map Prod.swap).map (·.2)).sum = (t.map (·.1)).sum := by
    rw [List.map_map]; rfl
  simp only [h1, h2, List.length_map, sum_eq]
  rw [List.map_map]
  congr 1
  apply List.map_congr_left
  rintro ⟨a, b⟩ _
  simp only [Function.comp, Prod.swap]
  rw [Nat.add_comm b a, Nat.add_comm (List.map (fun x => x.2) t).sum]
  exact add_comm _ _

/-- **C12.2 (`chisq_nonneg`)** with all expected counts positive (both samples non-empty, every column non-empty —
automatic for `freqTable`, see `freqTable_col_pos`) every cell contributes `(·)²/E ≥ 0`.  (Without the hypotheses
the ℝ-statement would still hold, but only because `x/0 = 0`; they are what makes each division genuine.) -/
theorem chisq_nonneg (corr : Bool) (t : List (ℕ × ℕ))
    (h1 : 0 < (t.map (·.1)).sum) (h2 : 0 < (t.map (·.2)).sum) (hc : ∀ p ∈ t, 0 < p.1 + p.2) :
    (0 : ℝ) ≤ chi2Stat corr t := by
  unfold chi2Stat
  simp only [sum_eq]
  apply List.sum_nonneg
  intro x hx
  obtain ⟨⟨a, b⟩, hp, rfl⟩ := List.mem_map.mp hx
  have hab : (0 : ℝ) < ((a + b : ℕ) : ℝ) := by exact_mod_cast hc _ hp
  have hr1 : (0 : ℝ) < (((t.map (·.1)).sum : ℕ) : ℝ) := by exact_mod_cast h1
  have hr2 : (0 : ℝ) < (((t.map (·.2)).sum : ℕ) : ℝ) := by exact_mod_cast h2
  have htot : (0 : ℝ) < (((t.map (·.1)).sum + (t.map (·.2)).sum : ℕ) : ℝ) := by
    exact_mod_cast Nat.add_pos_left h1 _
  have e1 : (0 : ℝ) < (((t.map (·.1)).sum : ℕ) : ℝ) * ((a + b : ℕ) : ℝ)
      / (((t.map (·.1)).sum + (t.map (·.2)).sum : ℕ) : ℝ) := div_pos (mul_pos hr1 hab) htot
  have e2 : (0 : ℝ) < (((t.map (·.2)).sum : ℕ) : ℝ) * ((a + b : ℕ) : ℝ)
      / (((t.map (·.1)).sum + (t.map (·.2)).sum : ℕ) : ℝ) := div_pos (mul_pos hr2 hab) htot
  exact add_nonneg (div_nonneg (mul_self_nonneg _) e1.le) (div_nonneg (mul_self_nonneg _) e2.le)

/-- for the detector's own table the hypotheses reduce to "both samples non-empty" -/
theorem chisq_nonneg_freqTable {κ : Type} [DecidableEq κ] (corr : Bool) (ref test : List κ)
    (hr : ref ≠ []) (ht : test ≠ []) : (0 : ℝ) ≤ chi2Stat corr (freqTable ref test) := by
  apply chisq_nonneg
  · rw [(freqTable_row_sums ref test).1]; exact List.length_pos_iff.mpr ht
  · rw [(freqTable_row_sums ref test).2]; exact List.length_pos_iff.mpr hr
  · exact freqTable_col_pos ref test

-- non-vacuity: a 2×3 table with positive margins
example : (0 : ℝ) ≤ chi2Stat true [(3, 1), (2, 2), (0, 4)] :=
  chisq_nonneg _ _ (by decide) (by decide) (by decide)
example : (0 : ℝ) ≤ chi2Stat true (freqTable ["a", "b"] ["b", "c"]) :=
  chisq_nonneg_freqTable _ _ _ (by simp) (by simp)
example : (chi2Stat true [(3, 1), (2, 2), (0, 4)] : ℝ) = chi2Stat true [(0, 4), (3, 1), (2, 2)] :=
  chisq_column_perm _ (by decide)
-- sanity: the 2×2 "identity" table with n = 2 has χ² = 2, and Yates brings it down to 0
example : (chi2Stat false [(1, 0), (0, 1)] : ℝ) = 2 := by
  rw [chisq_pearson]; norm_num [pearson, expected]
example : (chi2Stat true [(1, 0), (0, 1)] : ℝ) = 0 := by
  rw [chisq_yates _ rfl]; norm_num [pearsonYates, expected]

end ChiStat

/-! ## 3. Mann-Whitney U -/
section MWU

/-- the score of a pair, `2·[x > y] + [x = y]` -/
def score {α : Type} [Num α] (x y : α) : Nat := if Num.gt x y then 2 else if Num.beq x y then 1 else 0

theorem mwuTwice_eq {α : Type} [Num α] (ref test : List α) :
    mwuTwice ref test = (ref.map (fun x => (test.map (fun y => score x y)).sum)).sum := rfl

/-- **C12.3 (`mwu_perm`)** `U` is a double sum over pairs, hence independent of the order of either sample.
Arbitrary carrier: nothing is assumed about `Num.lt` / `Num.beq`. -/
theorem mwu_perm {α : Type} [Num α] {ref ref' test test' : List α}
    (hr : ref.Perm ref') (ht : test.Perm test') : mwuTwice ref test = mwuTwice ref' test' := by
  rw [mwuTwice_eq, mwuTwice_eq]
  have h : ∀ x : α, (test.map (fun y => score x y)).sum = (test'.map (fun y => score x y)).sum :=
    fun x => (ht.map _).sum_eq
  simp only [h]
  exact (hr.map _).sum_eq

example : mwuTwice [(1 : Float), 5, 3] [2, 7] = mwuTwice [(5 : Float), 1, 3] [7, 2] :=
  mwu_perm (List.Perm.swap 5 1 [3]) (List.Perm.swap 7 2 [])

theorem mwuTwice_cons_left {α : Type} [Num α] (x : α) (ref test : List α) :
    mwuTwice (x :: ref) test = (test.map (fun y => score x y)).sum + mwuTwice ref test := by
  rw [mwuTwice_eq, mwuTwice_eq, List.map_cons, List.sum_cons]

theorem mwuTwice_cons_right {α : Type} [Num α] (y : α) (ref test : List α) :
    mwuTwice ref (y :: test) = (ref.map (fun x => score x y)).sum + mwuTwice ref test := by
  rw [mwuTwice_eq, mwuTwice_eq]
  simp only [List.map_cons, List.sum_cons]
  rw [List.sum_map_add]

theorem mwuTwice_nil_left {α : Type} [Num α] (test : List α) : mwuTwice [] test = 0 := rfl
theorem mwuTwice_nil_right {α : Type} [Num α] (ref : List α) : mwuTwice ref [] = 0 := by
  rw [mwuTwice_eq]; simp

theorem score_strictMono {f : ℝ → ℝ} (hf : StrictMono f) (x y : ℝ) : score (f x) (f y) = score x y := by
  unfold score
  have h1 : Num.gt (f x) (f y) = Num.gt x y := by
    rw [Bool.eq_iff_iff]; simp only [gt_iff]; exact hf.lt_iff_lt
  have h2 : Num.beq (f x) (f y) = Num.beq x y := by
    rw [Bool.eq_iff_iff]; simp only [beq_iff]; exact hf.injective.eq_iff
  rw [h1, h2]

/-- **C12.3 (`mwu_monotone`)** `U` is a rank statistic: invariant under any strictly increasing transformation
applied to both samples -/
theorem mwu_monotone {f : ℝ → ℝ} (hf : StrictMono f) (ref test : List ℝ) :
    mwuTwice (ref.map f) (test.map f) = mwuTwice ref test := by
  rw [mwuTwice_eq, mwuTwice_eq]
  simp only [List.map_map, Function.comp_def, score_strictMono hf]

example : mwuTwice ([1, 5, 3].map Real.exp) ([2, 2].map Real.exp) = mwuTwice [(1 : ℝ), 5, 3] [2, 2] :=
  mwu_monotone Real.exp_strictMono _ _

/-- every pair is counted with total weight `2` by the two `U`s (trichotomy of `<` on ℝ; this is the place
where NaNs would break the identity at `Float`) -/
theorem score_add_score (x y : ℝ) : score x y + score y x = 2 := by
  unfold score
  rcases lt_trichotomy x y with h | h | h
  · have h1 : Num.gt x y = false := by simp [h.le]
    have h2 : Num.gt y x = true := by simp [h]
    have h3 : Num.beq x y = false := by
      rw [Bool.eq_false_iff]; simp only [ne_eq, beq_iff]; exact h.ne
    simp [h1, h2, h3]
  · subst h
    have h1 : Num.gt x x = false := by simp
    have h3 : Num.beq x x = true := by simp
    simp [h1, h3]
  · have h1 : Num.gt x y = true := by simp [h]
    have h2 : Num.gt y x = false := by simp [h.le]
    have h3 : Num.beq y x = false := by
      rw [Bool.eq_false_iff]; simp only [ne_eq, beq_iff]; exact h.ne
    simp [h1, h2, h3]

/-- **C12.3 (`mwu_swap`)** `U₁ + U₂ = n·m` (here doubled) -/
theorem mwu_swap (ref test : List ℝ) :
    mwuTwice ref test + mwuTwice test ref = 2 * ref.length * test.length := by
  induction ref with
  | nil => simp [mwuTwice_nil_left, mwuTwice_nil_right]
  | cons x ref ih =>
    rw [mwuTwice_cons_left, mwuTwice_cons_right, List.length_cons]
    have h : (test.map (fun y => score x y)).sum + (test.map (fun y => score y x)).sum = 2 * test.length := by
      rw [← List.sum_map_add]
      simp only [score_add_score, List.map_const', List.sum_replicate, smul_eq_mul]
      ring
    nlinarith [h, ih]

example : mwuTwice [(1 : ℝ), 5, 3] [2, 2] + mwuTwice [2, 2] [(1 : ℝ), 5, 3] = 12 := by
  rw [mwu_swap]; simp

end MWU

/-! ## 5. Kuiper's `V` versus the KS `D`; rank invariance of the KS lattice statistics -/
section Kuiper

theorem foldl_max_sup (g h : Int → Nat) (l : List Int) (a b : Nat) :
    l.foldl (fun acc d => max acc (max (g d) (h d))) (max a b)
      = max (l.foldl (fun acc d => max acc (g d)) a) (l.foldl (fun acc d => max acc (h d)) b) := by
  induction l generalizing a b with
  | nil => rfl
  | cons d l ih =>
    simp only [List.foldl_cons]
    rw [← ih]
    congr 1
    omega

/-- `D = max(D⁺, D⁻)` in lattice units (any carrier) -/
theorem hTwoSided_eq_max {α : Type} [Num α] (ref test : List α) :
    KS.hTwoSided ref test = max (KS.hPlus ref test) (KS.hMinus ref test) := by
  unfold KS.hTwoSided KS.hPlus KS.hMinus
  have e : (fun (acc : Nat) (d : Int) => max acc d.natAbs)
      = (fun acc d => max acc (max d.toNat (-d).toNat)) := by
    funext acc d; omega
  have := foldl_max_sup (fun d => d.toNat) (fun d => (-d).toNat) (KS.devs ref test) 0 0
  rw [Nat.max_self] at this
  rw [e, this]

/-- **C12.5 (`kuiper_ge_ks`)** `D ≤ V ≤ 2·D` (any carrier) -/
theorem kuiper_ge_ks {α : Type} [Num α] (ref test : List α) :
    ksD ref test ≤ kuiperV ref test ∧ kuiperV ref test ≤ 2 * ksD ref test := by
  unfold ksD kuiperV
  rw [hTwoSided_eq_max]
  omega

/-- `V = D` exactly when one of the one-sided deviations vanishes (one ECDF dominates the other) -/
theorem kuiper_eq_ks_iff {α : Type} [Num α] (ref test : List α) :
    kuiperV ref test = ksD ref test ↔ KS.hPlus ref test = 0 ∨ KS.hMinus ref test = 0 := by
  unfold ksD kuiperV
  rw [hTwoSided_eq_max]
  omega

/-- **C12.5 (`kuiper_ne_ks_witness`)** crossing ECDFs: `ref = [1,4]`, `test = [2,3]` have `D⁺ = D⁻ = 1` (in units of
`1/lcm = 1/2`), so Kuiper's `V = 2 ≠ 1 = D`; the detector called "Kuiper" reports the KS `D` (recorded finding) -/
theorem kuiper_ne_ks_witness :
    KS.hPlus [(1 : ℝ), 4] [2, 3] = 1 ∧ KS.hMinus [(1 : ℝ), 4] [2, 3] = 1 ∧
    kuiperV [(1 : ℝ), 4] [2, 3] = 2 ∧ ksD [(1 : ℝ), 4] [2, 3] = 1 ∧
    kuiperV [(1 : ℝ), 4] [2, 3] ≠ ksD [(1 : ℝ), 4] [2, 3] := by
  have hd : KS.devs [(1 : ℝ), 4] [2, 3] = [1, 0, 0, -1] := by
    simp [KS.devs, KS.countLe, List.filter, Num.le]
    norm_num
  have hp : KS.hPlus [(1 : ℝ), 4] [2, 3] = 1 := by unfold KS.hPlus; rw [hd]; rfl
  have hm : KS.hMinus [(1 : ℝ), 4] [2, 3] = 1 := by unfold KS.hMinus; rw [hd]; rfl
  have hv : kuiperV [(1 : ℝ), 4] [2, 3] = 2 := by unfold kuiperV; rw [hp, hm]
  have hk : ksD [(1 : ℝ), 4] [2, 3] = 1 := by unfold ksD; rw [hTwoSided_eq_max, hp, hm]; rfl
  refine ⟨hp, hm, hv, hk, ?_⟩
  rw [hv, hk]; decide

theorem countLe_map {f : ℝ → ℝ} (hf : StrictMono f) (l : List ℝ) (z : ℝ) :
    KS.countLe (l.map f) (f z) = KS.countLe l z := by
  unfold KS.countLe
  rw [List.filter_map, List.length_map]
  congr 2
  funext x
  simp only [Function.comp]
  rw [Bool.eq_iff_iff]; simp only [le_iff]; exact hf.le_iff_le

theorem devs_map {f : ℝ → ℝ} (hf : StrictMono f) (ref test : List ℝ) :
    KS.devs (ref.map f) (test.map f) = KS.devs ref test := by
  unfold KS.devs
  simp only [List.length_map]
  rw [← List.map_append, List.map_map]
  apply List.map_congr_left
  intro z _
  simp only [Function.comp, countLe_map hf]

/-- **C12.5 (`ks_rank_invariant`)** the KS lattice statistics `D`, `D⁺`, `D⁻` (hence Kuiper's `V`) only depend on the
ranks: they are invariant under a strictly increasing map applied to both samples -/
theorem ks_rank_invariant {f : ℝ → ℝ} (hf : StrictMono f) (ref test : List ℝ) :
    KS.hTwoSided (ref.map f) (test.map f) = KS.hTwoSided ref test ∧
    KS.hPlus (ref.map f) (test.map f) = KS.hPlus ref test ∧
    KS.hMinus (ref.map f) (test.map f) = KS.hMinus ref test ∧
    kuiperV (ref.map f) (test.map f) = kuiperV ref test := by
  unfold kuiperV KS.hTwoSided KS.hPlus KS.hMinus
  rw [devs_map hf]
  exact ⟨rfl, rfl, rfl, rfl⟩

example : KS.hTwoSided ([1, 4].map Real.exp) ([2, 3].map Real.exp) = KS.hTwoSided [(1 : ℝ), 4] [2, 3] :=
  (ks_rank_invariant Real.exp_strictMono _ _).1

end Kuiper

/-! ## 4. Welch's t (ℝ) -/
section Welch

theorem mean_eq (l : List ℝ) : mean l = l.sum / (l.length : ℝ) := by
  unfold mean; rw [sum_eq]; rfl

theorem var1_eq (l : List ℝ) :
    var1 l = (l.map (fun x => (x - mean l) * (x - mean l))).sum / ((l.length - 1 : ℕ) : ℝ) := by
  unfold var1; simp only [sum_eq]; rfl

/-- **C12.4 (`welch_swap`)** exchanging the samples flips the sign of `t` and keeps the degrees of freedom -/
theorem welch_swap (a b : List ℝ) : welchT b a = - welchT a b ∧ welchDf b a = welchDf a b := by
  constructor
  · unfold welchT
    rw [add_comm (var1 b / _), ← neg_div, neg_sub]
  · unfold welchDf
    simp only []
    rw [add_comm (var1 b / _), add_comm (var1 b / _ * _ / _)]

theorem mean_perm {l l' : List ℝ} (h : l.Perm l') : mean l = mean l' := by
  rw [mean_eq, mean_eq, h.sum_eq, h.length_eq]

theorem var1_perm {l l' : List ℝ} (h : l.Perm l') : var1 l = var1 l' := by
  rw [var1_eq, var1_eq, mean_perm h, h.length_eq, (h.map _).sum_eq]

/-- **C12.4 (`welch_perm`)** both depend on each sample only as a multiset -/
theorem welch_perm {a a' b b' : List ℝ} (ha : a.Perm a') (hb : b.Perm b') :
    welchT a b = welchT a' b' ∧ welchDf a b = welchDf a' b' := by
  unfold welchT welchDf
  simp only [mean_perm ha, mean_perm hb, var1_perm ha, var1_perm hb, ha.length_eq, hb.length_eq, and_self]

theorem sum_affine (c d : ℝ) (l : List ℝ) :
    (l.map (fun x => c * x + d)).sum = c * l.sum + l.length * d := by
  induction l with
  | nil => simp
  | cons x l ih => simp only [List.map_cons, List.sum_cons, ih, List.length_cons, Nat.cast_succ]; ring

/-- the mean is equivariant — for a NON-EMPTY sample (`mean [] = 0/0`, which is `0` at ℝ and NaN in Python) -/
theorem mean_affine (c d : ℝ) (l : List ℝ) (hl : l ≠ []) :
    mean (l.map (fun x => c * x + d)) = c * mean l + d := by
  rw [mean_eq, mean_eq, sum_affine, List.length_map]
  have : (l.length : ℝ) ≠ 0 := by
    exact_mod_cast (List.length_pos_iff.mpr hl).ne'
  field_simp

theorem var1_affine (c d : ℝ) (l : List ℝ) :
    var1 (l.map (fun x => c * x + d)) = c ^ 2 * var1 l := by
  by_cases hl : l = []
  · subst hl; simp [var1_eq]
  · rw [var1_eq, var1_eq, mean_affine c d l hl, List.length_map, List.map_map]
    have e : ((fun x => (x - (c * mean l + d)) * (x - (c * mean l + d))) ∘ fun x => c * x + d)
        = fun x => c ^ 2 * ((x - mean l) * (x - mean l)) := by
      funext x; simp only [Function.comp]; ring
    rw [e, List.sum_map_mul_left, mul_div_assoc]

/-- **C12.4 (`welch_shift_scale`)** `t` is invariant under a common shift and a common positive rescaling of both
samples, and flips its sign under a negative rescaling.  Hypotheses: both samples non-empty — needed, because the
model's (and numpy's) mean of an empty sample is `0/0`, which at ℝ is the junk value `0` and is not equivariant.
(For samples of size 1 or with zero pooled variance both sides are the same `x/0`; Python returns `nan`/`±inf` there.
The identity needs nothing about those cases, so no further hypothesis is imposed.) -/
theorem welch_shift_scale (c d : ℝ) (a b : List ℝ) (ha : a ≠ []) (hb : b ≠ []) :
    (0 < c → welchT (a.map (fun x => c * x + d)) (b.map (fun x => c * x + d)) = welchT a b) ∧
    (c < 0 → welchT (a.map (fun x => c * x + d)) (b.map (fun x => c * x + d)) = - welchT a b) := by
  have key : welchT (a.map (fun x => c * x + d)) (b.map (fun x => c * x + d))
      = c * (mean a - mean b)
        / (|c| * Real.sqrt (var1 a / (a.length : ℝ) + var1 b / (b.length : ℝ))) := by
    unfold welchT
    rw [mean_affine c d a ha, mean_affine c d b hb, var1_affine, var1_affine]
    simp only [List.length_map, ofNat_eq, sqrt_eq]
    have e : c ^ 2 * var1 a / (a.length : ℝ) + c ^ 2 * var1 b / (b.length : ℝ)
        = c ^ 2 * (var1 a / (a.length : ℝ) + var1 b / (b.length : ℝ)) := by ring
    rw [e, Real.sqrt_mul (sq_nonneg c), Real.sqrt_sq_eq_abs]
    congr 1
    ring
  constructor
  · intro hc
    rw [key, abs_of_pos hc, mul_div_mul_left _ _ hc.ne']
    rfl
  · intro hc
    rw [key, abs_of_neg hc, neg_mul, div_neg, mul_div_mul_left _ _ hc.ne]
    rfl

theorem df_scale (k u v na nb p q : ℝ) (hk : k ≠ 0) :
    (k * u / na + k * v / nb) * (k * u / na + k * v / nb)
        / (k * u / na * (k * u / na) / p + k * v / nb * (k * v / nb) / q)
      = (u / na + v / nb) * (u / na + v / nb) / (u / na * (u / na) / p + v / nb * (v / nb) / q) := by
  have e1 : (k * u / na + k * v / nb) * (k * u / na + k * v / nb)
      = k * k * ((u / na + v / nb) * (u / na + v / nb)) := by ring
  have e2 : k * u / na * (k * u / na) / p + k * v / nb * (k * v / nb) / q
      = k * k * (u / na * (u / na) / p + v / nb * (v / nb) / q) := by ring
  rw [e1, e2, mul_div_mul_left _ _ (mul_ne_zero hk hk)]

/-- the degrees of freedom are invariant under every non-degenerate common affine map (any sample sizes) -/
theorem welchDf_shift_scale (c d : ℝ) (hc : c ≠ 0) (a b : List ℝ) :
    welchDf (a.map (fun x => c * x + d)) (b.map (fun x => c * x + d)) = welchDf a b := by
  unfold welchDf
  simp only [var1_affine, List.length_map]
  exact df_scale (c ^ 2) _ _ _ _ _ _ (pow_ne_zero 2 hc)

example : welchT ([1, 2, 4].map (fun x => 2 * x + 7)) ([3, 5].map (fun x => 2 * x + 7)) = welchT [(1 : ℝ), 2, 4] [3, 5] :=
  (welch_shift_scale 2 7 _ _ (by simp) (by simp)).1 (by norm_num)

example : welchT ([1, 2, 4].map (fun x => -3 * x + 1)) ([3, 5].map (fun x => -3 * x + 1))
    = - welchT [(1 : ℝ), 2, 4] [3, 5] :=
  (welch_shift_scale (-3) 1 _ _ (by simp) (by simp)).2 (by norm_num)
example : welchT [(1 : ℝ), 2, 4] [3, 5] = welchT [2, 1, 4] [5, 3] :=
  (welch_perm (List.Perm.swap 2 1 [4]) (List.Perm.swap 5 3 [])).1
/-- the hypothesis `a ≠ []` of `welch_shift_scale` cannot be dropped: with an empty first sample the junk mean `0`
is not shifted -/
theorem welch_shift_empty_witness :
    welchT (([] : List ℝ).map (fun x => 1 * x + 1)) ([1, 3].map (fun x => 1 * x + 1)) ≠ welchT [] [1, 3] := by
  simp only [List.map_nil, List.map_cons, welchT, mean_eq, var1_eq]
  norm_num

end Welch

/-! ## axioms -/
#print axioms pyCall_typeError_iff
#print axioms pyCall_ok
#print axioms pyCall_spec
#print axioms forward_ok
#print axioms forward_never_typeError
#print axioms forward_ok_given
#print axioms forward_ok_default
#print axioms forward_get_iff
#print axioms forward_get_ok
#print axioms forward_get_witness
#print axioms freqTable_spec
#print axioms freqTable_length
#print axioms freqTable_row_sums
#print axioms freqTable_col_pos
#print axioms chisq_relabel
#print axioms chisq_relabel_stat
#print axioms chisq_pearson
#print axioms chisq_yates
#print axioms chisq_corr_irrelevant
#print axioms chisq_column_perm
#print axioms chisq_swap
#print axioms chisq_nonneg
#print axioms chisq_nonneg_freqTable
#print axioms mwu_perm
#print axioms mwu_monotone
#print axioms mwu_swap
#print axioms welch_swap
#print axioms welch_perm
#print axioms welch_shift_scale
#print axioms welchDf_shift_scale
#print axioms welch_shift_empty_witness
#print axioms hTwoSided_eq_max
#print axioms kuiper_ge_ks
#print axioms kuiper_eq_ks_iff
#print axioms kuiper_ne_ks_witness
#print axioms ks_rank_invariant

end Frouros.C12
