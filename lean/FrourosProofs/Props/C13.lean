/-
  C13 — permutation-test callback: same statistic under the null, Phipson–Smyth p-values.
  Model: `FrourosModel/Perm.lean` (unchanged).

  1. `chooseFast_eq`, `choose_eq`            the two binomial-coefficient routines are `Nat.choose`
  2. `binomCdf_eq`, `binomCdf_bounds`        `binomCdf` is the binomial CDF; in `[0,1]`, `= 1` for `m ≤ b`, `> 0` for `p < 1`
  3. `p_conservative`, `p_estimate`          `(b+1)/(m+1) ∈ (0,1]`, `b/m ∈ [0,1]`
  4. `p_exact_bounds`, `pExact_pos_iff`      mean of the CDF on the grid `t/mt`; `> 0` IFF `2 ≤ mt ∨ m ≤ b` (`pExact_zero_witness`)
  5. `cdfIntegral_hasDerivAt`, `cdfIntegral_eq`, `cdfIntegral_bounds`, `cdfIntegral_one` (Beta integral)
  6. `p_approx_spec_bounds`, `p_approx_sandwich`, `p_approx_double_factor_ne`, `p_approx_double_factor_witness`
     the code multiplies the integral by `0.5/mt` twice: `spec < model < (b+1)/(m+1)` for ALL `b ≤ m`, `mt ≥ 1`
  7. `wiring`, `resplit_sizes`, `jobs_irrelevant`, `extreme_le`   (arbitrary carrier / arbitrary sample type)
  `pvalues_valid` ties 3–7 together for `b = extreme null obs`, `m = null.length`.

  Arithmetic statements are at `α = ℝ`; section 7 is for every `[Num α]`.
-/
import Mathlib.Tactic
import Mathlib.Data.Nat.Choose.Sum
import Mathlib.MeasureTheory.Integral.IntervalIntegral.FundThmCalculus
import Mathlib.Analysis.SpecialFunctions.Integrals.Basic
import FrourosProofs.RealNum
import FrourosModel.Perm

namespace Frouros.C13
open Frouros Frouros.Perm Frouros.RealNum

/-! ## 1. binomial coefficients -/

theorem chooseFast_unfold (n k : Nat) : chooseFast n k = if n < k then 0 else
    (List.range' 0 k).foldl (fun r i => r * (n - i) / (i + 1)) 1 := by
  unfold chooseFast
  simp
  split <;> rfl

/-- loop invariant: after `k` iterations the accumulator is `C(n,k)`; every division is exact because
`C(n,i) * (n-i) = C(n,i+1) * (i+1)` -/
theorem foldl_choose (n k : Nat) :
    (List.range' 0 k).foldl (fun r i => r * (n - i) / (i + 1)) 1 = Nat.choose n k := by
  induction k with
  | zero => simp
  | succ k ih =>
    rw [List.range'_1_concat, List.foldl_append, ih]
    simp only [List.foldl_cons, List.foldl_nil, Nat.zero_add]
    rw [← Nat.choose_succ_right_eq, Nat.mul_div_cancel _ (Nat.succ_pos k)]

/-- the driver's multiplicative loop computes the binomial coefficient exactly, for all `n k` -/
theorem chooseFast_eq (n k : Nat) : chooseFast n k = Nat.choose n k := by
  rw [chooseFast_unfold, foldl_choose]
  split
  · rw [Nat.choose_eq_zero_of_lt ‹_›]
  · rfl

/-- the Pascal-recursion `choose` of the model is `Nat.choose` -/
theorem choose_eq (n k : Nat) : Perm.choose n k = Nat.choose n k := by
  induction n generalizing k with
  | zero => cases k <;> simp [Perm.choose]
  | succ n ih => cases k with
    | zero => simp [Perm.choose]
    | succ k => simp [Perm.choose, ih, Nat.choose_succ_succ]

theorem chooseFast_eq_choose (n k : Nat) : chooseFast n k = Perm.choose n k := by
  rw [chooseFast_eq, choose_eq]

example : chooseFast 10 3 = 120 ∧ Nat.choose 10 3 = 120 := by
  rw [chooseFast_eq]; decide

/-! ## the model's left fold `sum` at `ℝ` -/

theorem foldl_add_eq (l : List ℝ) (a : ℝ) : l.foldl (· + ·) a = a + l.sum := by
  induction l generalizing a with
  | nil => simp
  | cons x xs ih => simp [List.foldl_cons, ih, add_assoc]

theorem sum_eq_list_sum (l : List ℝ) : Perm.sum l = l.sum := by
  unfold Perm.sum; rw [foldl_add_eq]; simp

theorem sum_range_map (n : Nat) (f : Nat → ℝ) :
    Perm.sum ((List.range n).map f) = ∑ i ∈ Finset.range n, f i := by
  rw [sum_eq_list_sum]
  induction n with
  | zero => simp
  | succ n ih => rw [List.range_succ, List.map_append, List.sum_append, ih, Finset.sum_range_succ]; simp

/-! ## 2. binomial CDF -/

theorem binomPmf_eq (m k : Nat) (p : ℝ) :
    binomPmf m k p = (m.choose k : ℝ) * p ^ k * (1 - p) ^ (m - k) := by
  simp [binomPmf, chooseFast_eq]

/-- `binomCdf b m p = Σ_{k=0}^{b} C(m,k) p^k (1-p)^(m-k)` (no hypothesis on `p` is needed for the formula).
For `k > m` the exponent `m - k` is a truncated subtraction, but those terms carry the genuine
coefficient `C(m,k) = 0`; see `binomCdf_eq_min` for the form without any such term. -/
theorem binomCdf_eq (b m : Nat) (p : ℝ) :
    binomCdf b m p = ∑ k ∈ Finset.range (b + 1), (m.choose k : ℝ) * p ^ k * (1 - p) ^ (m - k) := by
  unfold binomCdf
  rw [sum_range_map]
  exact Finset.sum_congr rfl (fun k _ => binomPmf_eq m k p)

/-- the same with the summation stopped at `min b m`: every exponent `m - k` is a true subtraction -/
theorem binomCdf_eq_min (b m : Nat) (p : ℝ) :
    binomCdf b m p = ∑ k ∈ Finset.range (min b m + 1), (m.choose k : ℝ) * p ^ k * (1 - p) ^ (m - k) := by
  rw [binomCdf_eq]
  symm
  apply Finset.sum_subset
  · intro k hk; simp only [Finset.mem_range] at *; omega
  · intro k hk hk'
    simp only [Finset.mem_range] at *
    have : m < k := by omega
    simp [Nat.choose_eq_zero_of_lt this]

theorem binomTerm_nonneg (m k : Nat) {p : ℝ} (h0 : 0 ≤ p) (h1 : p ≤ 1) :
    0 ≤ (m.choose k : ℝ) * p ^ k * (1 - p) ^ (m - k) := by
  have : 0 ≤ 1 - p := by linarith
  positivity

/-- the full sum is `(p + (1-p))^m = 1` -/
theorem binom_full_sum (m : Nat) (p : ℝ) :
    ∑ k ∈ Finset.range (m + 1), (m.choose k : ℝ) * p ^ k * (1 - p) ^ (m - k) = 1 := by
  have h := (add_pow p (1 - p) m).symm
  rw [show p + (1 - p) = 1 by ring, one_pow] at h
  exact Eq.trans (Finset.sum_congr rfl (fun k _ => by ring)) h

theorem binomCdf_nonneg (b m : Nat) {p : ℝ} (h0 : 0 ≤ p) (h1 : p ≤ 1) : 0 ≤ binomCdf b m p := by
  rw [binomCdf_eq]
  exact Finset.sum_nonneg (fun k _ => binomTerm_nonneg m k h0 h1)

/-- `binomCdf b m p = 1` when `m ≤ b` (all the mass), for every real `p` -/
theorem binomCdf_eq_one (b m : Nat) (p : ℝ) (h : m ≤ b) : binomCdf b m p = 1 := by
  rw [binomCdf_eq_min, min_eq_right h, binom_full_sum]

theorem binomCdf_le_one (b m : Nat) {p : ℝ} (h0 : 0 ≤ p) (h1 : p ≤ 1) : binomCdf b m p ≤ 1 := by
  rw [binomCdf_eq_min]
  refine le_trans ?_ (binom_full_sum m p).le
  apply Finset.sum_le_sum_of_subset_of_nonneg
  · intro k hk; simp only [Finset.mem_range] at *; omega
  · intro k _ _; exact binomTerm_nonneg m k h0 h1

/-- strictly positive for `p < 1`: the `k = 0` term is `(1-p)^m > 0` -/
theorem binomCdf_pos (b m : Nat) {p : ℝ} (h0 : 0 ≤ p) (h1 : p < 1) : 0 < binomCdf b m p := by
  rw [binomCdf_eq, Finset.sum_range_succ']
  have h : 0 < 1 - p := by linarith
  have : 0 ≤ ∑ k ∈ Finset.range b, (m.choose (k + 1) : ℝ) * p ^ (k + 1) * (1 - p) ^ (m - (k + 1)) :=
    Finset.sum_nonneg (fun k _ => binomTerm_nonneg m (k + 1) h0 h1.le)
  have : 0 < (m.choose 0 : ℝ) * p ^ 0 * (1 - p) ^ (m - 0) := by simp; positivity
  linarith

/-- at `p = 1` the CDF is the indicator of `m ≤ b`; in particular it is `0` for `b < m`, which is why
positivity needs `p < 1` -/
theorem binomCdf_one_of_lt (b m : Nat) (h : b < m) : binomCdf b m (1 : ℝ) = 0 := by
  rw [binomCdf_eq]
  apply Finset.sum_eq_zero
  intro k hk
  simp only [Finset.mem_range] at hk
  have : m - k ≠ 0 := by omega
  simp [this]

/-- the four facts of item 2 bundled -/
theorem binomCdf_bounds (b m : Nat) {p : ℝ} (h0 : 0 ≤ p) (h1 : p ≤ 1) :
    0 ≤ binomCdf b m p ∧ binomCdf b m p ≤ 1 ∧ (m ≤ b → binomCdf b m p = 1) ∧ (p < 1 → 0 < binomCdf b m p) :=
  ⟨binomCdf_nonneg b m h0 h1, binomCdf_le_one b m h0 h1, binomCdf_eq_one b m p, binomCdf_pos b m h0⟩

/-- non-vacuity of `binomCdf_bounds`: `p = 1/2` satisfies `0 ≤ p ≤ 1` and `p < 1` -/
example : 0 < binomCdf 1 2 (1 / 2 : ℝ) ∧ binomCdf 1 2 (1 / 2 : ℝ) ≤ 1 :=
  ⟨binomCdf_pos 1 2 (by norm_num) (by norm_num), binomCdf_le_one 1 2 (by norm_num) (by norm_num)⟩
example : binomCdf 1 2 (1 / 2 : ℝ) = 3 / 4 := by
  rw [binomCdf_eq]; simp [Finset.sum_range_succ]; norm_num

/-! ## 3. conservative and estimate p-values -/

theorem pConservative_eq (b m : Nat) : (pConservative b m : ℝ) = ((b : ℝ) + 1) / ((m : ℝ) + 1) := by
  simp [pConservative]

/-- `(b+1)/(m+1) ∈ (0,1]` for `b ≤ m` (the denominator `m+1` is never zero, so no junk division) -/
theorem p_conservative (b m : Nat) (h : b ≤ m) :
    (pConservative b m : ℝ) = ((b : ℝ) + 1) / ((m : ℝ) + 1) ∧ 0 < (pConservative b m : ℝ) ∧ (pConservative b m : ℝ) ≤ 1 := by
  rw [pConservative_eq]
  have hb : (b : ℝ) ≤ m := by exact_mod_cast h
  have hm : (0 : ℝ) < (m : ℝ) + 1 := by positivity
  refine ⟨rfl, by positivity, ?_⟩
  rw [div_le_one hm]; linarith

example : (pConservative 0 999 : ℝ) = 1 / 1000 := by rw [pConservative_eq]; norm_num

theorem pEstimate_eq (b m : Nat) : (pEstimate b m : ℝ) = (b : ℝ) / (m : ℝ) := by
  simp [pEstimate]

/-- `b/m ∈ [0,1]` for `b ≤ m`; `0 < m` excludes the totalised `b/0 = 0` -/
theorem p_estimate (b m : Nat) (h : b ≤ m) (hm : 0 < m) :
    (pEstimate b m : ℝ) = (b : ℝ) / (m : ℝ) ∧ 0 ≤ (pEstimate b m : ℝ) ∧ (pEstimate b m : ℝ) ≤ 1 := by
  rw [pEstimate_eq]
  have hb : (b : ℝ) ≤ m := by exact_mod_cast h
  have hm' : (0 : ℝ) < (m : ℝ) := by exact_mod_cast hm
  refine ⟨rfl, by positivity, ?_⟩
  rw [div_le_one hm']; exact hb

/-- the estimate p-value can be exactly `0` (that is why Phipson–Smyth call it invalid) -/
theorem p_estimate_zero (m : Nat) : (pEstimate 0 m : ℝ) = 0 := by simp [pEstimate_eq]

example : (pEstimate 3 4 : ℝ) = 3 / 4 := by rw [pEstimate_eq]; norm_num

/-! ## 4. exact p-value -/

theorem pExact_eq (b m mt : Nat) :
    (pExact b m mt : ℝ) = (∑ t ∈ Finset.range mt, binomCdf b m (((t : ℝ) + 1) / (mt : ℝ))) / (mt : ℝ) := by
  unfold pExact
  rw [sum_range_map]
  simp

/-- the formula in the shape of the paper: `(1/mt) Σ_{t=1}^{mt} F(b; m, t/mt)` -/
theorem pExact_eq_Icc (b m mt : Nat) :
    (pExact b m mt : ℝ) = (1 / (mt : ℝ)) * ∑ t ∈ Finset.Icc 1 mt, binomCdf b m ((t : ℝ) / (mt : ℝ)) := by
  have h : ∑ t ∈ Finset.Icc 1 mt, binomCdf b m ((t : ℝ) / (mt : ℝ))
      = ∑ t ∈ Finset.range mt, binomCdf b m (((t : ℝ) + 1) / (mt : ℝ)) := by
    rw [show Finset.Icc 1 mt = Finset.Ico (0 + 1) (mt + 1) from by ext; simp,
      ← Finset.sum_Ico_add' (fun t : Nat => binomCdf b m ((t : ℝ) / (mt : ℝ))) 0 mt 1, Finset.range_eq_Ico]
    simp only [Nat.cast_add, Nat.cast_one]
  rw [pExact_eq, h]
  ring

theorem grid_mem (t mt : Nat) (ht : t < mt) : 0 ≤ ((t : ℝ) + 1) / (mt : ℝ) ∧ ((t : ℝ) + 1) / (mt : ℝ) ≤ 1 := by
  have hmt : (0 : ℝ) < mt := by exact_mod_cast (by omega : 0 < mt)
  have : (t : ℝ) + 1 ≤ mt := by exact_mod_cast ht
  exact ⟨by positivity, by rw [div_le_one hmt]; exact this⟩

/-- `pExact ∈ (0,1]`.  `1 ≤ mt` excludes the empty mean (`0/0`); positivity needs a grid point `< 1`
(`2 ≤ mt`) or the degenerate case `m ≤ b` where every term is `1` — see `pExact_zero_witness`. -/
theorem p_exact_bounds (b m mt : Nat) (hmt : 1 ≤ mt) :
    (pExact b m mt : ℝ) ≤ 1 ∧ 0 ≤ (pExact b m mt : ℝ) ∧ ((2 ≤ mt ∨ m ≤ b) → 0 < (pExact b m mt : ℝ)) := by
  have hmt' : (0 : ℝ) < mt := by exact_mod_cast (by omega : 0 < mt)
  rw [pExact_eq]
  refine ⟨?_, ?_, ?_⟩
  · rw [div_le_one hmt']
    calc ∑ t ∈ Finset.range mt, binomCdf b m (((t : ℝ) + 1) / (mt : ℝ))
        ≤ ∑ _t ∈ Finset.range mt, (1 : ℝ) :=
          Finset.sum_le_sum (fun t ht => binomCdf_le_one b m (grid_mem t mt (Finset.mem_range.mp ht)).1
            (grid_mem t mt (Finset.mem_range.mp ht)).2)
      _ = mt := by simp
  · apply div_nonneg _ hmt'.le
    exact Finset.sum_nonneg (fun t ht => binomCdf_nonneg b m (grid_mem t mt (Finset.mem_range.mp ht)).1
            (grid_mem t mt (Finset.mem_range.mp ht)).2)
  · intro h
    apply div_pos _ hmt'
    obtain ⟨n, rfl⟩ : ∃ n, mt = n + 1 := ⟨mt - 1, by omega⟩
    rw [Finset.sum_range_succ']
    have hrest : 0 ≤ ∑ t ∈ Finset.range n, binomCdf b m (((↑(t + 1) : ℝ) + 1) / (↑(n + 1) : ℝ)) :=
      Finset.sum_nonneg (fun t ht => by
        have := grid_mem (t + 1) (n + 1) (by have := Finset.mem_range.mp ht; omega)
        exact binomCdf_nonneg b m this.1 this.2)
    have hfirst : 0 < binomCdf b m (((↑(0 : Nat) : ℝ) + 1) / (↑(n + 1) : ℝ)) := by
      rcases h with h | h
      · apply binomCdf_pos b m (by positivity)
        have : (2 : ℝ) ≤ ((n + 1 : Nat) : ℝ) := by exact_mod_cast h
        rw [div_lt_one (by linarith)]; push_cast at *; linarith
      · rw [binomCdf_eq_one b m _ h]; exact one_pos
    linarith

/-- the hypothesis `2 ≤ mt ∨ m ≤ b` is sharp: with a single possible permutation and `b < m`
the "exact" p-value is exactly `0` -/
theorem pExact_zero_witness (b m : Nat) (h : b < m) : (pExact b m 1 : ℝ) = 0 := by
  rw [pExact_eq]; simp [binomCdf_one_of_lt b m h]


/-- for `1 ≤ mt` the exact p-value is positive IFF `2 ≤ mt ∨ m ≤ b` -/
theorem pExact_pos_iff (b m mt : Nat) (hmt : 1 ≤ mt) : 0 < (pExact b m mt : ℝ) ↔ (2 ≤ mt ∨ m ≤ b) := by
  refine ⟨fun hpos => ?_, (p_exact_bounds b m mt hmt).2.2⟩
  by_contra hcon
  have h1 : mt = 1 := by omega
  have h2 : b < m := by omega
  rw [h1, pExact_zero_witness b m h2] at hpos
  exact lt_irrefl _ hpos

/-- the usual reading: `0 < pExact ≤ 1` -/
theorem p_exact_pos_le_one (b m mt : Nat) (hmt : 1 ≤ mt) (h : 2 ≤ mt ∨ m ≤ b) :
    0 < (pExact b m mt : ℝ) ∧ (pExact b m mt : ℝ) ≤ 1 :=
  ⟨(p_exact_bounds b m mt hmt).2.2 h, (p_exact_bounds b m mt hmt).1⟩

/-- non-vacuity: `b = 1`, `m = 5` permutations, `mt = 20` possible ones -/
example : 0 < (pExact 1 5 20 : ℝ) ∧ (pExact 1 5 20 : ℝ) ≤ 1 := p_exact_pos_le_one 1 5 20 (by decide) (by decide)

/-! ## 5. the closed-form integral of the binomial CDF -/

theorem signed_eq (i : Nat) (t : ℝ) : (if (i % 2 == 0) = true then t else -t) = (-1) ^ i * t := by
  rcases Nat.even_or_odd i with h | h
  · have : i % 2 = 0 := Nat.even_iff.mp h
    simp [this, h.neg_one_pow]
  · have : i % 2 = 1 := Nat.odd_iff.mp h
    simp [this, h.neg_one_pow]

theorem monoIntegral_eq (k j : Nat) (a : ℝ) :
    monoIntegral k j a = ∑ i ∈ Finset.range (j + 1), (-1) ^ i * ((j.choose i : ℝ) * a ^ (k + i + 1) / ((k : ℝ) + i + 1)) := by
  unfold monoIntegral
  rw [sum_range_map]
  refine Finset.sum_congr rfl (fun i _ => ?_)
  simp only [signed_eq, chooseFast_eq, ofNat_eq, npow_eq]
  push_cast
  rfl

/-- binomial expansion `Σ_i (-1)^i C(j,i) a^(k+i) = a^k (1-a)^j` -/
theorem expand_eq (k j : Nat) (a : ℝ) :
    ∑ i ∈ Finset.range (j + 1), (-1) ^ i * ((j.choose i : ℝ) * a ^ (k + i)) = a ^ k * (1 - a) ^ j := by
  have h := add_pow (-a) 1 j
  rw [show -a + 1 = 1 - a by ring] at h
  rw [h, Finset.mul_sum]
  refine Finset.sum_congr rfl (fun i _ => ?_)
  rw [neg_pow a i, pow_add]; ring

theorem monoIntegral_hasDerivAt (k j : Nat) (a : ℝ) :
    HasDerivAt (fun x : ℝ => monoIntegral k j x) (a ^ k * (1 - a) ^ j) a := by
  rw [← expand_eq]
  simp only [monoIntegral_eq]
  apply HasDerivAt.fun_sum
  intro i _
  have hne : ((k : ℝ) + i + 1) ≠ 0 := by positivity
  have h1 : HasDerivAt (fun x : ℝ => x ^ (k + i + 1)) (((k + i + 1 : Nat) : ℝ) * a ^ (k + i)) a := by
    simpa using hasDerivAt_pow (k + i + 1) a
  have h2 := ((h1.const_mul (j.choose i : ℝ)).div_const ((k : ℝ) + i + 1)).const_mul ((-1 : ℝ) ^ i)
  refine h2.congr_deriv ?_
  push_cast
  field_simp

theorem cdfIntegral_eq_sum (b m : Nat) (a : ℝ) :
    cdfIntegral b m a = ∑ k ∈ Finset.range (b + 1), (m.choose k : ℝ) * monoIntegral k (m - k) a := by
  unfold cdfIntegral
  rw [sum_range_map]
  simp [chooseFast_eq]

theorem cdfIntegral_hasDerivAt (b m : Nat) (a : ℝ) :
    HasDerivAt (fun x : ℝ => cdfIntegral b m x) (binomCdf b m a) a := by
  rw [binomCdf_eq]
  simp only [cdfIntegral_eq_sum]
  apply HasDerivAt.fun_sum
  intro k _
  have := (monoIntegral_hasDerivAt k (m - k) a).const_mul (m.choose k : ℝ)
  exact this.congr_deriv (by ring)

theorem monoIntegral_zero (k j : Nat) : monoIntegral k j (0 : ℝ) = 0 := by
  rw [monoIntegral_eq]
  apply Finset.sum_eq_zero
  intro i _
  simp

theorem cdfIntegral_zero (b m : Nat) : cdfIntegral b m (0 : ℝ) = 0 := by
  rw [cdfIntegral_eq_sum]; simp [monoIntegral_zero]

theorem binomCdf_continuous (b m : Nat) : Continuous (fun p : ℝ => binomCdf b m p) := by
  simp only [binomCdf_eq]
  fun_prop

theorem cdfIntegral_eq (b m : Nat) (a : ℝ) : cdfIntegral b m a = ∫ p in (0:ℝ)..a, binomCdf b m p := by
  rw [intervalIntegral.integral_eq_sub_of_hasDerivAt (f := fun x => cdfIntegral b m x)
    (fun x _ => cdfIntegral_hasDerivAt b m x) ((binomCdf_continuous b m).intervalIntegrable _ _)]
  simp [cdfIntegral_zero]



theorem binomCdf_intervalIntegrable (b m : Nat) (x y : ℝ) :
    IntervalIntegrable (fun p : ℝ => binomCdf b m p) MeasureTheory.volume x y :=
  (binomCdf_continuous b m).intervalIntegrable _ _

/-- `0 ≤ ∫₀^a F ≤ a` for `0 ≤ a ≤ 1` -/
theorem cdfIntegral_bounds (b m : Nat) {a : ℝ} (h0 : 0 ≤ a) (h1 : a ≤ 1) :
    0 ≤ cdfIntegral b m a ∧ cdfIntegral b m a ≤ a := by
  rw [cdfIntegral_eq]
  constructor
  · apply intervalIntegral.integral_nonneg h0
    intro p hp; exact binomCdf_nonneg b m hp.1 (hp.2.trans h1)
  · have h := intervalIntegral.integral_mono_on h0 (binomCdf_intervalIntegrable b m 0 a)
      (intervalIntegrable_const (c := (1 : ℝ))) (fun p hp => binomCdf_le_one b m hp.1 (hp.2.trans h1))
    simpa using h

example : 0 ≤ cdfIntegral 1 3 (1 / 2 : ℝ) ∧ cdfIntegral 1 3 (1 / 2 : ℝ) ≤ 1 / 2 :=
  cdfIntegral_bounds 1 3 (by norm_num) (by norm_num)

/-- strictly positive for `0 < a` -/
theorem cdfIntegral_pos (b m : Nat) {a : ℝ} (h0 : 0 < a) (h1 : a ≤ 1) : 0 < cdfIntegral b m a := by
  rw [cdfIntegral_eq]
  apply intervalIntegral.intervalIntegral_pos_of_pos_on (binomCdf_intervalIntegrable b m 0 a) _ h0
  intro p hp; exact binomCdf_pos b m hp.1.le (hp.2.trans_le h1)

/-! ### the Beta integral `∫₀¹ p^k (1-p)^j dp = 1 / ((k+j+1) C(k+j,k))` -/

/-- integration by parts: `(k+1) ∫₀¹ p^k (1-p)^(j+1) = (j+1) ∫₀¹ p^(k+1) (1-p)^j`, stated for the closed forms -/
theorem monoIntegral_one_rec (k j : Nat) :
    ((k : ℝ) + 1) * monoIntegral k (j + 1) (1 : ℝ) = ((j : ℝ) + 1) * monoIntegral (k + 1) j (1 : ℝ) := by
  -- g x = (k+1) * M(k,j+1,x) - (j+1) * M(k+1,j,x) - x^(k+1) (1-x)^(j+1) has derivative 0 … simpler: FTC twice
  have hM : ∀ k j : Nat, monoIntegral k j (1 : ℝ) = ∫ p in (0:ℝ)..1, p ^ k * (1 - p) ^ j := by
    intro k j
    rw [intervalIntegral.integral_eq_sub_of_hasDerivAt (f := fun x => monoIntegral k j x)
      (fun x _ => monoIntegral_hasDerivAt k j x) (by apply Continuous.intervalIntegrable; fun_prop)]
    simp [monoIntegral_zero]
  have hg : ∀ x : ℝ, HasDerivAt (fun x : ℝ => x ^ (k + 1) * (1 - x) ^ (j + 1))
      (((k : ℝ) + 1) * (x ^ k * (1 - x) ^ (j + 1)) - ((j : ℝ) + 1) * (x ^ (k + 1) * (1 - x) ^ j)) x := by
    intro x
    have h1 : HasDerivAt (fun x : ℝ => x ^ (k + 1)) (((k + 1 : Nat) : ℝ) * x ^ k) x := by
      simpa using hasDerivAt_pow (k + 1) x
    have h2 : HasDerivAt (fun x : ℝ => (1 - x) ^ (j + 1)) (((j + 1 : Nat) : ℝ) * (1 - x) ^ j * (-1)) x := by
      have := ((hasDerivAt_id x).const_sub 1).fun_pow (j + 1)
      simpa using this
    refine (h1.mul h2).congr_deriv ?_
    push_cast; ring
  have hint := intervalIntegral.integral_eq_sub_of_hasDerivAt (a := 0) (b := 1) (fun x _ => hg x)
    (by apply Continuous.intervalIntegrable; fun_prop)
  rw [intervalIntegral.integral_sub (by apply Continuous.intervalIntegrable; fun_prop)
    (by apply Continuous.intervalIntegrable; fun_prop),
    intervalIntegral.integral_const_mul, intervalIntegral.integral_const_mul, ← hM, ← hM] at hint
  simp at hint
  linarith

/-- Beta integral: `∫₀¹ p^k (1-p)^j dp · (k+j+1) · C(k+j,k) = 1` -/
theorem monoIntegral_one (k j : Nat) :
    monoIntegral k j (1 : ℝ) * (((k : ℝ) + j + 1) * ((k + j).choose k : ℝ)) = 1 := by
  induction j generalizing k with
  | zero =>
    rw [monoIntegral_eq]
    simp
    field_simp
  | succ j ih =>
    have hrec := monoIntegral_one_rec k j
    have h := ih (k + 1)
    have hc : (((k + 1 + j).choose (k + 1) : ℕ) : ℝ) * ((k : ℝ) + 1) = ((k + 1 + j).choose k : ℝ) * ((j : ℝ) + 1) := by
      have := Nat.choose_succ_right_eq (k + 1 + j) k
      have h' : k + 1 + j - k = j + 1 := by omega
      rw [h'] at this
      exact_mod_cast this
    have e : k + (j + 1) = k + 1 + j := by omega
    rw [e]
    push_cast at h ⊢
    have hk : ((k : ℝ) + 1) ≠ 0 := by positivity
    apply mul_left_cancel₀ hk
    linear_combination (((k : ℝ) + j + 2) * ((k + 1 + j).choose k : ℝ)) * hrec + ((k : ℝ) + 1) * h
      - monoIntegral (k + 1) j (1 : ℝ) * ((k : ℝ) + j + 2) * hc


/-- `∫₀¹ F(b; m, p) dp = (b+1)/(m+1)` for `b ≤ m` -/
theorem cdfIntegral_one (b m : Nat) (h : b ≤ m) : cdfIntegral b m (1 : ℝ) = ((b : ℝ) + 1) / ((m : ℝ) + 1) := by
  rw [cdfIntegral_eq_sum]
  have hm : ((m : ℝ) + 1) ≠ 0 := by positivity
  have hterm : ∀ k ∈ Finset.range (b + 1), (m.choose k : ℝ) * monoIntegral k (m - k) (1 : ℝ) = 1 / ((m : ℝ) + 1) := by
    intro k hk
    have hk' : k ≤ m := by have := Finset.mem_range.mp hk; omega
    have h1 := monoIntegral_one k (m - k)
    have e : k + (m - k) = m := by omega
    rw [e] at h1
    have e2 : (k : ℝ) + ((m - k : Nat) : ℝ) = m := by exact_mod_cast e
    rw [e2] at h1
    rw [eq_div_iff hm]
    linear_combination h1
  rw [Finset.sum_congr rfl hterm]
  simp
  ring

/-! ## 6. Phipson–Smyth approximate p-value: specification vs. model -/

/-- the integration limit `0.5 / mt` -/
theorem halfStep_eq (mt : Nat) : ((Num.ofDec 5 1 : ℝ) / Num.ofNat mt) = 1 / (2 * (mt : ℝ)) := by
  simp only [ofDec_eq, ofNat_eq]
  rcases Nat.eq_zero_or_pos mt with h | h
  · simp [h]
  · have : (mt : ℝ) ≠ 0 := by exact_mod_cast h.ne'
    field_simp; norm_num

theorem halfStep_mem (mt : Nat) (hmt : 1 ≤ mt) : 0 < 1 / (2 * (mt : ℝ)) ∧ 1 / (2 * (mt : ℝ)) ≤ 1 / 2 := by
  have h : (1 : ℝ) ≤ mt := by exact_mod_cast hmt
  constructor
  · positivity
  · rw [div_le_div_iff_of_pos_left one_pos (by positivity) (by norm_num)]; linarith

theorem pApproximateSpec_eq (b m mt : Nat) :
    (pApproximateSpec b m mt : ℝ) = ((b : ℝ) + 1) / ((m : ℝ) + 1) - cdfIntegral b m (1 / (2 * (mt : ℝ))) := by
  unfold pApproximateSpec
  simp only [halfStep_eq]
  simp

theorem pApproximate_eq (b m mt : Nat) :
    (pApproximate b m mt : ℝ)
      = ((b : ℝ) + 1) / ((m : ℝ) + 1) - 1 / (2 * (mt : ℝ)) * cdfIntegral b m (1 / (2 * (mt : ℝ))) := by
  unfold pApproximate
  simp only [halfStep_eq]
  simp

/-- the specification as an integral: `(b+1)/(m+1) − ∫₀^{0.5/mt} F(b; m, p) dp` -/
theorem pApproximateSpec_integral (b m mt : Nat) :
    (pApproximateSpec b m mt : ℝ)
      = ((b : ℝ) + 1) / ((m : ℝ) + 1) - ∫ p in (0:ℝ)..(1 / (2 * (mt : ℝ))), binomCdf b m p := by
  rw [pApproximateSpec_eq, cdfIntegral_eq]

/-- … which is the tail integral `∫_{0.5/mt}^1 F(b; m, p) dp` (Phipson–Smyth's argument for validity) -/
theorem pApproximateSpec_tail (b m mt : Nat) (h : b ≤ m) :
    (pApproximateSpec b m mt : ℝ) = ∫ p in (1 / (2 * (mt : ℝ)))..(1:ℝ), binomCdf b m p := by
  rw [pApproximateSpec_integral, ← cdfIntegral_one b m h, cdfIntegral_eq,
    intervalIntegral.integral_interval_sub_left (binomCdf_intervalIntegrable b m _ _)
      (binomCdf_intervalIntegrable b m _ _)]

/-- the SPECIFICATION is a valid p-value: `0 < spec ≤ (b+1)/(m+1) ≤ 1`.
`1 ≤ mt` excludes the junk limit `0.5/0`; `b ≤ m` is `extreme_le`. -/
theorem p_approx_spec_bounds (b m mt : Nat) (h : b ≤ m) (hmt : 1 ≤ mt) :
    0 < (pApproximateSpec b m mt : ℝ) ∧ (pApproximateSpec b m mt : ℝ) ≤ (pConservative b m : ℝ)
      ∧ (pConservative b m : ℝ) ≤ 1 := by
  obtain ⟨ha0, ha1⟩ := halfStep_mem mt hmt
  refine ⟨?_, ?_, (p_conservative b m h).2.2⟩
  · rw [pApproximateSpec_tail b m mt h]
    apply intervalIntegral.intervalIntegral_pos_of_pos_on (binomCdf_intervalIntegrable b m _ _) _ (by linarith)
    intro p hp
    exact binomCdf_pos b m (ha0.le.trans hp.1.le) hp.2
  · rw [pApproximateSpec_eq, pConservative_eq]
    have := (cdfIntegral_bounds b m ha0.le (by linarith)).1
    linarith

/-- the MODEL (the code as written) lies between the specification and the conservative value, so it is
still in `(0,1]` — but it is strictly larger than the specification (less powerful test). -/
theorem p_approx_sandwich (b m mt : Nat) (h : b ≤ m) (hmt : 1 ≤ mt) :
    0 < (pApproximateSpec b m mt : ℝ) ∧ (pApproximateSpec b m mt : ℝ) < (pApproximate b m mt : ℝ)
      ∧ (pApproximate b m mt : ℝ) < (pConservative b m : ℝ) ∧ (pConservative b m : ℝ) ≤ 1 := by
  obtain ⟨ha0, ha1⟩ := halfStep_mem mt hmt
  obtain ⟨hs0, _, hc1⟩ := p_approx_spec_bounds b m mt h hmt
  have hI := cdfIntegral_pos b m ha0 (by linarith)
  refine ⟨hs0, ?_, ?_, hc1⟩
  · rw [pApproximateSpec_eq, pApproximate_eq]
    nlinarith
  · rw [pApproximate_eq, pConservative_eq]
    have := mul_pos ha0 hI
    linarith

/-- non-vacuity of `p_approx_spec_bounds` / `p_approx_sandwich`: `b = 2 ≤ m = 99`, `mt = 1000`
(concrete values for a small instance are in `p_approx_double_factor_witness`) -/
example : 0 < (pApproximateSpec 2 99 1000 : ℝ) ∧ (pApproximateSpec 2 99 1000 : ℝ) < (pApproximate 2 99 1000 : ℝ)
    ∧ (pApproximate 2 99 1000 : ℝ) < (pConservative 2 99 : ℝ) ∧ (pConservative 2 99 : ℝ) ≤ 1 :=
  p_approx_sandwich 2 99 1000 (by decide) (by decide)

/-- the code's double factor always changes the value: for every `b m` and every `mt ≥ 1` -/
theorem p_approx_double_factor_ne (b m mt : Nat) (hmt : 1 ≤ mt) :
    (pApproximate b m mt : ℝ) ≠ pApproximateSpec b m mt := by
  obtain ⟨ha0, ha1⟩ := halfStep_mem mt hmt
  have hI := cdfIntegral_pos b m ha0 (by linarith)
  rw [pApproximateSpec_eq, pApproximate_eq]
  intro heq
  nlinarith

/-- exact difference: `model − spec = (1 − 0.5/mt) · ∫₀^{0.5/mt} F` -/
theorem p_approx_diff (b m mt : Nat) :
    (pApproximate b m mt : ℝ) - pApproximateSpec b m mt
      = (1 - 1 / (2 * (mt : ℝ))) * cdfIntegral b m (1 / (2 * (mt : ℝ))) := by
  rw [pApproximateSpec_eq, pApproximate_eq]; ring

/-- concrete witness: `b = 0, m = 1, mt = 1`: spec `= 1/8`, code `= 5/16` -/
theorem p_approx_double_factor_witness :
    (pApproximateSpec 0 1 1 : ℝ) = 1 / 8 ∧ (pApproximate 0 1 1 : ℝ) = 5 / 16
      ∧ (pApproximate 0 1 1 : ℝ) ≠ pApproximateSpec 0 1 1 := by
  have hI : cdfIntegral 0 1 (1 / (2 * ((1 : Nat) : ℝ))) = 3 / 8 := by
    rw [cdfIntegral_eq_sum]
    simp [monoIntegral_eq, Finset.sum_range_succ]
    norm_num
  have h1 : (pApproximateSpec 0 1 1 : ℝ) = 1 / 8 := by rw [pApproximateSpec_eq, hI]; norm_num
  have h2 : (pApproximate 0 1 1 : ℝ) = 5 / 16 := by rw [pApproximate_eq, hI]; norm_num
  refine ⟨h1, h2, ?_⟩
  rw [h1, h2]; norm_num


/-! ## 7. wiring (arbitrary types, arbitrary carrier) -/

section wiring
variable {α : Type} [Num α] {X P : Type}

omit [Num α] in
/-- every null statistic is the detector's own statistic, with the detector's own parameters, on the
re-split `(p[:n], p[-m:])` of the permuted pooled sample -/
theorem wiring (stat : P → List X → List X → α) (params : P) (n m : Nat) (perms : List (List X)) :
    nullStats stat params n m perms = perms.map (fun p => stat params (p.take n) (p.drop (p.length - m))) := rfl

/-- each re-split has sizes `n` and `m` and is a partition of the permuted sample (first ++ second = p) -/
theorem resplit_sizes (n m : Nat) (p : List X) (h : p.length = n + m) :
    (resplit n m p).1.length = n ∧ (resplit n m p).2.length = m ∧ (resplit n m p).1 ++ (resplit n m p).2 = p := by
  have hn : p.length - m = n := by omega
  simp only [resplit, hn]
  refine ⟨?_, ?_, List.take_append_drop n p⟩
  · rw [List.length_take]; omega
  · rw [List.length_drop]; omega

omit [Num α] in
theorem nullStats_length (stat : P → List X → List X → α) (params : P) (n m : Nat) (perms : List (List X)) :
    (nullStats stat params n m perms).length = perms.length := by simp [nullStats]

omit [Num α] in
theorem nullStats_append (stat : P → List X → List X → α) (params : P) (n m : Nat) (ps qs : List (List X)) :
    nullStats stat params n m (ps ++ qs) = nullStats stat params n m ps ++ nullStats stat params n m qs := by
  simp [nullStats]

omit [Num α] in
/-- `num_jobs` is irrelevant: processing any partition of `perms` into consecutive blocks separately and
concatenating gives the same list of null statistics -/
theorem jobs_irrelevant (stat : P → List X → List X → α) (params : P) (n m : Nat) (blocks : List (List (List X))) :
    (blocks.map (nullStats stat params n m)).flatten = nullStats stat params n m blocks.flatten := by
  induction blocks with
  | nil => rfl
  | cons b bs ih => simp only [List.map_cons, List.flatten_cons, nullStats_append, ih]

/-- the number of extreme null statistics never exceeds the number of permutations -/
theorem extreme_le (null : List α) (obs : α) : extreme null obs ≤ null.length := by
  unfold extreme; exact List.length_filter_le _ _

theorem extreme_append (l₁ l₂ : List α) (obs : α) : extreme (l₁ ++ l₂) obs = extreme l₁ obs + extreme l₂ obs := by
  simp [extreme]

end wiring

example : resplit 2 1 [10, 20, 30] = ([10, 20], [30]) := by decide

/-- at `ℝ`: `extreme` counts the null statistics `≥ observed` -/
theorem extreme_real (null : List ℝ) (obs : ℝ) : extreme null obs = null.countP (fun s => decide (obs ≤ s)) := by
  unfold extreme
  rw [List.countP_eq_length_filter]
  congr 1

/-! ## end-to-end: the p-values computed from an actual list of null statistics -/

/-- With `b := extreme null obs` and `m := null.length` (so `b ≤ m` by `extreme_le`), every p-value variant
of the callback is a number in `(0,1]` (`[0,1]` for `estimate`), under the explicit side conditions:
`1 ≤ mt` for `approximate`, `2 ≤ mt` for `exact`, `null ≠ []` for `estimate`. -/
theorem pvalues_valid (null : List ℝ) (obs : ℝ) (mt : Nat) :
    (0 < (pConservative (extreme null obs) null.length : ℝ) ∧ (pConservative (extreme null obs) null.length : ℝ) ≤ 1)
    ∧ (1 ≤ mt → 0 < (pApproximate (extreme null obs) null.length mt : ℝ)
              ∧ (pApproximate (extreme null obs) null.length mt : ℝ) < 1)
    ∧ (2 ≤ mt → 0 < (pExact (extreme null obs) null.length mt : ℝ) ∧ (pExact (extreme null obs) null.length mt : ℝ) ≤ 1)
    ∧ (null ≠ [] → 0 ≤ (pEstimate (extreme null obs) null.length : ℝ) ∧ (pEstimate (extreme null obs) null.length : ℝ) ≤ 1) := by
  have hb := extreme_le null obs
  refine ⟨(p_conservative _ _ hb).2, fun hmt => ?_, fun hmt => ?_, fun hne => ?_⟩
  · obtain ⟨h0, h1, h2, h3⟩ := p_approx_sandwich _ _ mt hb hmt
    exact ⟨h0.trans h1, h2.trans_le h3⟩
  · exact p_exact_pos_le_one _ _ mt (by omega) (Or.inl hmt)
  · exact (p_estimate _ _ hb (List.length_pos_iff.mpr hne)).2

example : extreme [1, 5, 3, 7] (4 : ℝ) = 2 := by
  rw [extreme_real]; simp [List.countP_cons]; norm_num

end Frouros.C13

section axioms
open Frouros.C13
#print axioms chooseFast_eq
#print axioms choose_eq
#print axioms binomCdf_eq
#print axioms binomCdf_bounds
#print axioms p_conservative
#print axioms p_estimate
#print axioms p_exact_bounds
#print axioms pExact_pos_iff
#print axioms pExact_eq_Icc
#print axioms pExact_zero_witness
#print axioms cdfIntegral_hasDerivAt
#print axioms cdfIntegral_eq
#print axioms cdfIntegral_bounds
#print axioms cdfIntegral_one
#print axioms p_approx_spec_bounds
#print axioms pApproximateSpec_tail
#print axioms p_approx_sandwich
#print axioms p_approx_double_factor_ne
#print axioms p_approx_double_factor_witness
#print axioms wiring
#print axioms resplit_sizes
#print axioms jobs_irrelevant
#print axioms extreme_le
#print axioms pvalues_valid
end axioms
