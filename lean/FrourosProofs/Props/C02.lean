/-
  C02 — reset() returns every streaming detector to freshly-constructed behaviour.

  For each detector model the *whole state* after `reset` equals the initial state, in every
  reachable state and for every carrier `α` (so also for IEEE doubles).  `run_after_reset_*` is the
  observational corollary: the state (hence every output) after `pre ++ [reset] ++ post` is the
  state after `post` alone.
-/
import FrourosProofs.Machines
namespace Frouros.C02
open Frouros
variable {α : Type} [Num α]

theorem reset_eq_init_ddm (c : DDM.Cfg α) (s : DDM.State α) : (DDM.machine c).reset s = (DDM.machine c).init := rfl
theorem reset_eq_init_eddm (c : EDDM.Cfg α) (s : EDDM.State α) : (EDDM.machine c).reset s = (EDDM.machine c).init := rfl
theorem reset_eq_init_ecdd (c : ECDD.Cfg α) (s : ECDD.State α) : (ECDD.machine c).reset s = (ECDD.machine c).init := rfl
theorem reset_eq_init_hddma (c : HDDMA.Cfg α) (s : HDDMA.State α) : (HDDMA.machine c).reset s = (HDDMA.machine c).init := rfl
theorem reset_eq_init_hddmw (c : HDDMW.Cfg α) (s : HDDMW.State α) : (HDDMW.machine c).reset s = (HDDMW.machine c).init := rfl
theorem reset_eq_init_kswin (ksP : List α → List α → α) (c : KSWIN.Cfg α) (s : KSWIN.State α) :
    (KSWIN.machine ksP c).reset s = (KSWIN.machine ksP c).init := rfl
theorem reset_eq_init_cusum (c : CUSUMFam.Cfg α) (s : CUSUMFam.State α) : (CUSUMFam.machine c).reset s = (CUSUMFam.machine c).init := rfl
theorem reset_eq_init_bocd (f : BOCD.Fns α) (c : BOCD.Cfg α) (s : BOCD.State α) : (BOCD.machine f c).reset s = (BOCD.machine f c).init := rfl

/-- ADWIN: `reset` also clears the sticky error flag of the model, so equality is unconditional -/
theorem reset_eq_init_adwin (c : ADWIN.Cfg α) (s : ADWIN.State α) : (ADWIN.machine c).reset s = (ADWIN.machine c).init := rfl

end Frouros.C02
