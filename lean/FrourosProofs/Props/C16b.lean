/-
  C16b / C14 / C17 on the OBJECT-LEVEL model `FrourosModel/Heap.lean`, in which two detector objects
  can share cells (configuration object, the configuration's BOCD model, callbacks list, callback
  objects, reference array).  Unlike `Props/C16.lean`, `C14.lean`, `C17.lean` (true of any functional
  model) the statements below are FALSE for variants of the model that alias where the Python code
  copies; the variants and their `_witness` theorems are next to each theorem.

  Everything is control flow / pointer structure: arbitrary payload type `D`, value type `V`, result
  type `R`, arbitrary pure computations `S : Sem D V R` — no assumption on any operation.
-/
import FrourosProofs.Lemmas.Heap
namespace Frouros.C16b
open Frouros.Heap

variable {D V R : Type}

/-! ## 1. Isolation of detector instances (C16) -/

/-- **write footprint** of detector `d`: the cells its `update`/`reset` may write through `d`'s own
references — the detector object, its own containers, its own model copy, its callback objects.
(NOT the configuration object, nor the configuration's model, nor the list object.) -/
def Foot (h : Heap D) (d r : Ref) : Prop :=
  ∃ x, getDet h d = some x ∧
    (r = d ∨ r = x.vars ∨ x.model = some r ∨ ∃ items, getList h x.callbacks = some items ∧ r ∈ items)

/-- what one operation addressed to `d` does to the store, seen from outside: the store only grows,
allocated cells outside `d`'s footprint are unchanged, and the footprint afterwards consists of old
footprint cells and freshly allocated cells -/
structure Step (d : Ref) (h h' : Heap D) : Prop where
  len : h.length ≤ h'.length
  frame : ∀ r, r < h.length → ¬ Foot h d r → read h' r = read h r
  foot : ∀ r, Foot h' d r → Foot h d r ∨ h.length ≤ r
  /-- no reference to an already existing cell is stored anywhere new: an outgoing reference of a
  cell afterwards was an outgoing reference of the same cell before, or points to a fresh cell -/
  edge : ∀ x o', read h' x = some o' → ∀ y ∈ edges o',
    (h.length ≤ y ∧ y < h'.length) ∨ ∃ o, read h x = some o ∧ y ∈ edges o

theorem update_step {S : Sem D V R} {h h' : Heap D} {d : Ref} {v : V} (hrun : update S h d v = some h') :
    Step d h h' := by
  unfold update at hrun
  split at hrun
  · exact absurd hrun (by simp)
  next items hitems =>
  split at hrun
  · exact absurd hrun (by simp)
  next h1 hcore =>
  have hcb := forEach_onUpdateEnd S v hrun
  obtain ⟨x, cfg, sc, cm, vd, hx, _, _, hvd, hlen, hfr, ⟨own', hd1⟩, hmod⟩ := updateCore_spec hcore
  obtain ⟨x', hx', hl⟩ := callbacksOf_eq_some.mp hitems
  rw [hx] at hx'; cases hx'
  have hdr := getDet_eq_some.mp hx
  have hvr := getData_eq_some.mp hvd
  have hlr := getList_eq_some.mp hl
  -- the list cell is none of the written cells
  have hl1 : read h1 x.callbacks = read h x.callbacks := by
    apply hfr
    · intro e; rw [e, hdr] at hlr; cases hlr
    · intro e; rw [e, hvr] at hlr; cases hlr
    · intro e
      obtain ⟨p, hp⟩ := hmod _ e
      rw [getData_eq_some.mp hp] at hlr; cases hlr
  refine ⟨by rw [hcb.1, hlen]; exact Nat.le_refl _, ?_, ?_, ?_⟩
  rotate_left 2
  · intro x' o' hx'o y hy
    obtain ⟨o1, ho1, e1⟩ := hcb.edges hx'o
    obtain ⟨o, ho, e2⟩ := updateCore_edges hcore ho1
    exact Or.inr ⟨o, ho, by rw [← e2, ← e1]; exact hy⟩
  · intro r _ hnf
    have hnf' : ¬ (r = d ∨ r = x.vars ∨ x.model = some r ∨ ∃ items, getList h x.callbacks = some items ∧ r ∈ items) :=
      fun hh => hnf ⟨x, hx, hh⟩
    rw [hcb.not_mem (fun hm => hnf' (Or.inr (Or.inr (Or.inr ⟨items, hl, hm⟩))))]
    exact hfr r (fun e => hnf' (Or.inl e)) (fun e => hnf' (Or.inr (Or.inl e)))
      (fun e => hnf' (Or.inr (Or.inr (Or.inl e))))
  · intro r ⟨x2, hx2, hcases⟩
    left
    have hd' : read h' d = some (.detector { x with own := own' }) := by
      rw [hcb.not_cb (by rw [hd1]; intro cb hc; cases hc)]; exact hd1
    rw [getDet_eq_some, hd'] at hx2
    cases hx2
    refine ⟨x, hx, ?_⟩
    rcases hcases with e | e | e | ⟨items', hl', hm⟩
    · exact Or.inl e
    · exact Or.inr (Or.inl e)
    · exact Or.inr (Or.inr (Or.inl e))
    · refine Or.inr (Or.inr (Or.inr ⟨items', ?_, hm⟩))
      have hl'r := getList_eq_some.mp hl'
      have : read h' x.callbacks = read h1 x.callbacks :=
        hcb.not_cb' (by rw [hl'r]; intro cb hc; cases hc)
      rw [getList_eq_some, ← hl1, ← this]; exact hl'r

/-- `reset` AS WRITTEN (`copy = true`: the model is deep-copied out of the configuration) -/
theorem reset_step {S : Sem D V R} {h h' : Heap D} {d : Ref} (hrun : reset S h d = some h') : Step d h h' := by
  unfold reset resetG at hrun
  split at hrun
  · exact absurd hrun (by simp)
  next items hitems =>
  split at hrun
  · exact absurd hrun (by simp)
  next h1 hcore =>
  have hcb := forEach_cbReset hrun
  obtain ⟨x, cfg, sc, cm, vd, model, h0, hx, _, _, hvd, hcm, _, hlen, hfr, hd1⟩ := resetCoreG_spec hcore
  obtain ⟨x', hx', hl⟩ := callbacksOf_eq_some.mp hitems
  rw [hx] at hx'; cases hx'
  have hdr := getDet_eq_some.mp hx
  have hvr := getData_eq_some.mp hvd
  have hlr := getList_eq_some.mp hl
  have hl1 : read h1 x.callbacks = read h x.callbacks := by
    apply hfr _ (read_lt hlr)
    · intro e; rw [e, hdr] at hlr; cases hlr
    · intro e; rw [e, hvr] at hlr; cases hlr
  have hfresh : ∀ m, model = some m → h.length ≤ m := by
    intro m hm
    rcases copyModel_spec hcm with ⟨_, e, _⟩ | ⟨_, _, e, _⟩ | ⟨_, _, _, _, _, e, _⟩
    · rw [e] at hm; cases hm
    · cases e
    · rw [e] at hm; cases hm; exact Nat.le_refl _
  refine ⟨by rw [hcb.1]; exact hlen, ?_, ?_, ?_⟩
  rotate_left 2
  · intro x' o' hx'o y hy
    obtain ⟨o1, ho1, e1⟩ := hcb.edges hx'o
    rcases resetCore_edges hcore ho1 (e1 ▸ hy) with hfr' | hold
    · left; rw [hcb.1]; exact hfr'
    · exact Or.inr hold
  · intro r hr hnf
    have hnf' : ¬ (r = d ∨ r = x.vars ∨ x.model = some r ∨ ∃ items, getList h x.callbacks = some items ∧ r ∈ items) :=
      fun hh => hnf ⟨x, hx, hh⟩
    rw [hcb.not_mem (fun hm => hnf' (Or.inr (Or.inr (Or.inr ⟨items, hl, hm⟩))))]
    exact hfr r hr (fun e => hnf' (Or.inl e)) (fun e => hnf' (Or.inr (Or.inl e)))
  · intro r ⟨x2, hx2, hcases⟩
    have hd' : read h' d = some (.detector { x with own := S.initOwn sc, model := model }) := by
      rw [hcb.not_cb (by rw [hd1]; intro cb hc; cases hc)]; exact hd1
    rw [getDet_eq_some, hd'] at hx2
    cases hx2
    rcases hcases with e | e | e | ⟨items', hl', hm⟩
    · exact Or.inl ⟨x, hx, Or.inl e⟩
    · exact Or.inl ⟨x, hx, Or.inr (Or.inl e)⟩
    · exact Or.inr (hfresh r e)
    · refine Or.inl ⟨x, hx, Or.inr (Or.inr (Or.inr ⟨items', ?_, hm⟩))⟩
      have hl'r := getList_eq_some.mp hl'
      have : read h' x.callbacks = read h1 x.callbacks :=
        hcb.not_cb' (by rw [hl'r]; intro cb hc; cases hc)
      rw [getList_eq_some, ← hl1, ← this]; exact hl'r

theorem apply_step {S : Sem D V R} {h h' : Heap D} {d : Ref} {op : SOp V}
    (hrun : applyG true S d h op = some h') : Step d h h' := by
  cases op with
  | update v => exact update_step hrun
  | reset => exact reset_step hrun

/-- **separation invariant**: every cell reachable from `d2` is allocated and lies outside the write
footprint of `d1`.  (The two reachable sets need not be disjoint: a shared configuration object and
its model are reachable from both, but in nobody's footprint.) -/
structure Sep (h : Heap D) (d1 d2 : Ref) : Prop where
  alloc : ∀ r, Reach h d2 r → r < h.length
  disj : ∀ r, Reach h d2 r → ¬ Foot h d1 r

/-- one step: the invariant is kept, and no cell reachable from `d2` changes -/
theorem sep_step {h h' : Heap D} {d1 d2 : Ref} (hs : Sep h d1 d2) (hst : Step d1 h h') :
    (∀ r, Reach h d2 r → read h' r = read h r) ∧ (∀ r, Reach h' d2 r ↔ Reach h d2 r) ∧ Sep h' d1 d2 := by
  have hag : ∀ r, Reach h d2 r → read h' r = read h r := fun r hr => hst.frame r (hs.alloc r hr) (hs.disj r hr)
  have hre := reach_frame hag
  refine ⟨hag, hre, ⟨fun r hr => Nat.lt_of_lt_of_le (hs.alloc r ((hre r).mp hr)) hst.len, fun r hr hf => ?_⟩⟩
  have hr0 := (hre r).mp hr
  rcases hst.foot r hf with h1 | h1
  · exact hs.disj r hr0 h1
  · exact absurd (hs.alloc r hr0) (Nat.not_lt.mpr h1)

/-- **isolation, run level** (the invariant form): under the separation invariant, ANY history of
`update`/`reset` calls on `d1` — of any length — leaves every cell reachable from `d2` unchanged,
leaves the set of cells reachable from `d2` unchanged, and re-establishes the invariant. -/
theorem isolation_run {S : Sem D V R} {d1 d2 : Ref} (ops : List (SOp V)) {h h' : Heap D} (hs : Sep h d1 d2)
    (hrun : runOps (applyG true S d1) h ops = some h') :
    (∀ r, Reach h d2 r → read h' r = read h r) ∧ (∀ r, Reach h' d2 r ↔ Reach h d2 r) ∧ Sep h' d1 d2 := by
  induction ops generalizing h with
  | nil =>
    simp only [runOps, Option.some.injEq] at hrun
    subst hrun
    exact ⟨fun _ _ => rfl, fun _ => Iff.rfl, hs⟩
  | cons op ops ih =>
    simp only [runOps] at hrun
    split at hrun
    · next h1 hop =>
      obtain ⟨a1, a2, a3⟩ := sep_step hs (apply_step hop)
      obtain ⟨b1, b2, b3⟩ := ih a3 hrun
      refine ⟨fun r hr => ?_, fun r => (b2 r).trans (a2 r), b3⟩
      rw [b1 r ((a2 r).mpr hr), a1 r hr]
    · exact absurd hrun (by simp)

/-! ### the invariant holds after the constructors -/

theorem foot_reach {h : Heap D} {d r : Ref} (hf : Foot h d r) : Reach h d r := by
  obtain ⟨x, hx, hc⟩ := hf
  have hd := getDet_eq_some.mp hx
  rcases hc with rfl | rfl | hm | ⟨items, hl, hm⟩
  · exact Reach.refl _
  · exact Reach.edge hd (by simp [edges])
  · exact Reach.edge hd (by simp [edges, hm])
  · exact (Reach.edge hd (by simp [edges])).trans (Reach.edge (getList_eq_some.mp hl) hm)

/-- the footprint of a freshly constructed detector -/
theorem built_foot {copy : Bool} {S : Sem D V R} {h h' : Heap D} {cfg d : Ref} {arg : CbArg} {sc : D} {cm : Option Ref}
    {cbs : Ref} {items : List Ref} {vars : Ref} {model : Option Ref}
    (B : Built copy S h cfg arg d h' sc cm cbs items vars model) {r : Ref} (hf : Foot h' d r) :
    r = d ∨ r = vars ∨ model = some r ∨ r ∈ items := by
  obtain ⟨x, hx, hc⟩ := hf
  rw [getDet_eq_some, B.hd] at hx
  cases hx
  rcases hc with e | e | e | ⟨items', hl, hm⟩
  · exact Or.inl e
  · exact Or.inr (Or.inl e)
  · exact Or.inr (Or.inr (Or.inl e))
  · rw [getList_eq_some, B.hlist] at hl
    cases hl
    exact Or.inr (Or.inr (Or.inr hm))

/-- **one more detector**: constructing a detector `d` (code as written) next to an existing detector
`d0` leaves every cell reachable from `d0` unchanged and makes the two mutually separated, provided
* (`halloc`) nothing reachable from `d0` dangles,
* (`hitems`) the callback objects handed to the constructor are not reachable from `d0`,
* (`hcfg`) the configuration object and what it refers to (its model) are outside `d0`'s footprint
  — i.e. `d0` never writes through the configuration, which is what `d0`'s own deep copy ensures,
* (`hlist`) a callbacks LIST object handed to the constructor is outside `d0`'s footprint.
Sharing the configuration object itself, or the list's being reachable from elsewhere, is allowed. -/
theorem newDetector_sep {S : Sem D V R} {h h' : Heap D} {cfg d : Ref} {arg : CbArg}
    (hnew : newDetector S h cfg arg = some (d, h')) (d0 : Ref)
    (halloc : ∀ r, Reach h d0 r → r < h.length)
    (hitems : ∀ items, ArgItems h arg items → ∀ c ∈ items, ¬ Reach h d0 c)
    (hcfg : ∀ r, Reach h cfg r → ¬ Foot h d0 r)
    (hlist : ∀ l, arg = .list l → ¬ Foot h d0 l) :
    (∀ r, Reach h d0 r → read h' r = read h r) ∧ Sep h' d d0 ∧ Sep h' d0 d := by
  obtain ⟨sc, cm, cbs, items, vars, model, B⟩ := newDetectorG_spec hnew
  have hfr : ∀ r, Reach h d0 r → read h' r = read h r :=
    fun r hr => B.frame r (halloc r hr) (fun hm => hitems items B.arg_items r hm hr)
  have hre := reach_frame hfr
  have hmfresh : ∀ r, model = some r → h.length ≤ r := by
    intro r hm
    rcases B.hmodel with ⟨_, e⟩ | ⟨m, _, ⟨hc, _⟩ | ⟨_, p, mr, _, e, hge, _⟩⟩
    · rw [e] at hm; cases hm
    · cases hc
    · rw [e] at hm; cases hm; exact hge
  -- the footprint of `d0` did not grow
  have hfoot0 : ∀ r, Foot h' d0 r → Foot h d0 r := by
    intro r ⟨x, hx, hc⟩
    have hx0 : getDet h d0 = some x := by
      rw [getDet_eq_some, ← hfr d0 (Reach.refl _)]; exact getDet_eq_some.mp hx
    refine ⟨x, hx0, ?_⟩
    rcases hc with e | e | e | ⟨items', hl, hm⟩
    · exact Or.inl e
    · exact Or.inr (Or.inl e)
    · exact Or.inr (Or.inr (Or.inl e))
    · refine Or.inr (Or.inr (Or.inr ⟨items', ?_, hm⟩))
      rw [getList_eq_some, ← hfr x.callbacks (Reach.edge (getDet_eq_some.mp hx0) (by simp [edges]))]
      exact getList_eq_some.mp hl
  refine ⟨hfr, ⟨fun r hr => Nat.lt_of_lt_of_le (halloc r ((hre r).mp hr)) B.len, ?_⟩, ⟨?_, ?_⟩⟩
  · intro r hr hf
    have hr0 := (hre r).mp hr
    have hlt := halloc r hr0
    rcases built_foot B hf with rfl | rfl | hm | hm
    · exact absurd hlt (Nat.not_lt.mpr B.d_fresh)
    · exact absurd hlt (Nat.not_lt.mpr B.vars_fresh)
    · exact absurd hlt (Nat.not_lt.mpr (hmfresh r hm))
    · exact hitems items B.arg_items r hm hr0
  · intro r hr
    rcases B.cell (B.reach hr) with ⟨_, cb, hcb, _⟩ | ⟨_, o, ho, _⟩
    · exact read_lt hcb
    · exact read_lt ho
  · intro r hr hf
    have hf0 := hfoot0 r hf
    have hlt := halloc r (foot_reach hf0)
    have hc0 := getCfg_eq_some.mp B.hcfg
    rcases B.reach hr with rfl | rfl | hm | rfl | rfl | hm | hm
    · exact absurd hlt (Nat.not_lt.mpr B.d_fresh)
    · exact hcfg _ (Reach.refl _) hf0
    · exact hcfg r (Reach.edge hc0 (by simp [edges, hm])) hf0
    · rcases B.cbs_cases with ⟨e, _⟩ | hge
      · exact hlist _ e hf0
      · exact absurd hlt (Nat.not_lt.mpr hge)
    · exact absurd hlt (Nat.not_lt.mpr B.vars_fresh)
    · exact absurd hlt (Nat.not_lt.mpr (hmfresh r hm))
    · exact hitems items B.arg_items r hm (foot_reach hf0)

/-- **two detectors from the SAME configuration object** are mutually separated (code as written).
Hypotheses: (`hwf`) the configuration's own references do not dangle in the initial store;
(`hdisj`) the two constructors are not handed a common callback OBJECT (see
`isolation_sharedCallbacks_witness` for what happens otherwise).  The same configuration object,
`None`, a single callback or a caller-owned list are all allowed. -/
theorem construct_sep {S : Sem D V R} {h0 h1 h2 : Heap D} {cfg d1 d2 : Ref} {a1 a2 : CbArg}
    (hn1 : newDetector S h0 cfg a1 = some (d1, h1)) (hn2 : newDetector S h1 cfg a2 = some (d2, h2))
    (hwf : ∀ r, Reach h0 cfg r → r < h0.length)
    (hdisj : ∀ i1 i2, ArgItems h0 a1 i1 → ArgItems h1 a2 i2 → ∀ c, c ∈ i1 → c ∉ i2) :
    Sep h2 d1 d2 ∧ Sep h2 d2 d1 := by
  obtain ⟨sc, cm, cbs, items, vars, model, B⟩ := newDetectorG_spec hn1
  obtain ⟨sc2, cm2, cbs2, items2, vars2, model2, B2⟩ := newDetectorG_spec hn2
  have hc0 := getCfg_eq_some.mp B.hcfg
  have hmfresh : ∀ r, model = some r → h0.length ≤ r := by
    intro r hm
    rcases B.hmodel with ⟨_, e⟩ | ⟨m, _, ⟨hc, _⟩ | ⟨_, p, mr, _, e, hge, _⟩⟩
    · rw [e] at hm; cases hm
    · cases hc
    · rw [e] at hm; cases hm; exact hge
  have hkey := newDetector_sep hn2 d1 ?_ ?_ ?_ ?_
  · exact ⟨hkey.2.2, hkey.2.1⟩
  · -- nothing reachable from `d1` dangles
    intro r hr
    rcases B.cell (B.reach hr) with ⟨_, cb, hcb, _⟩ | ⟨_, o, ho, _⟩
    · exact read_lt hcb
    · exact read_lt ho
  · -- the callbacks of the second constructor are not reachable from `d1`
    intro i2 hi2 c hc hr
    have hi2' : i2 = items2 := by
      cases a2 with
      | none => exact hi2.trans B2.arg_items.symm
      | single c => exact hi2.trans B2.arg_items.symm
      | list l =>
        have e1 : getList h1 l = some i2 := hi2
        have e2 : getList h1 l = some items2 := B2.arg_items
        rw [e1] at e2; cases e2; rfl
    subst hi2'
    obtain ⟨_, ⟨cb0, hcb0⟩, _⟩ := B2.hitems c hc
    rcases B.cell (B.reach hr) with ⟨hm, _⟩ | ⟨_, o, ho, hn, _⟩
    · exact hdisj items i2 B.arg_items hi2 c hm hc
    · rw [hcb0] at ho; cases ho; exact hn cb0 rfl
  · -- the configuration and its model are outside the footprint of `d1`
    intro r hr hf
    have hr' : r = cfg ∨ cm = some r := by
      refine Reach.subset (P := fun r => r = cfg ∨ cm = some r) ?_ hr (Or.inl rfl)
      intro x o y hx hxo hy
      rcases B.cell (show InBuilt cfg cm cbs items vars model d1 x from
          hx.elim (fun e => Or.inr (Or.inl e)) (fun e => Or.inr (Or.inr (Or.inl e)))) with
        ⟨hm, cb, hcb, _⟩ | ⟨_, o', ho', _, _⟩
      · -- a callback cell: impossible for the configuration and for its (data) model
        exfalso
        rcases hx with rfl | hx
        · obtain ⟨_, ⟨cb0, hcb0⟩, _⟩ := B.hitems _ hm
          rw [hc0] at hcb0; cases hcb0
        · rcases B.hmodel with ⟨e, _⟩ | ⟨m, e, ⟨hc, _⟩ | ⟨_, p, mr, hp, _⟩⟩
          · rw [e] at hx; cases hx
          · cases hc
          · rw [e] at hx; cases hx; rw [hp] at hcb; cases hcb
      · rcases hx with rfl | hx
        · have : read h1 x = some (.config sc cm) := by
            have hnot : x ∉ items := by
              intro hm
              obtain ⟨_, ⟨cb0, hcb0⟩, _⟩ := B.hitems _ hm
              rw [hc0] at hcb0; cases hcb0
            rw [B.frame x (read_lt hc0) hnot]; exact hc0
          rw [this] at hxo; cases hxo
          right
          cases cm with
          | none => cases hy
          | some m => simp only [edges, Option.toList, List.mem_singleton] at hy; rw [hy]
        · rcases B.hmodel with ⟨e, _⟩ | ⟨m, e, ⟨hc, _⟩ | ⟨_, p, mr, hp, _⟩⟩
          · rw [e] at hx; cases hx
          · cases hc
          · rw [e] at hx; cases hx; rw [hp] at hxo; cases hxo; cases hy
    have hlt : r < h0.length := by
      rcases hr' with rfl | hm
      · exact read_lt hc0
      · exact hwf r (Reach.edge hc0 (by simp [edges, hm]))
    rcases built_foot B hf with rfl | rfl | hm | hm
    · exact absurd hlt (Nat.not_lt.mpr B.d_fresh)
    · exact absurd hlt (Nat.not_lt.mpr B.vars_fresh)
    · exact absurd hlt (Nat.not_lt.mpr (hmfresh r hm))
    · -- a callback of the first detector is neither the configuration nor its model
      rcases B.cell (show InBuilt cfg cm cbs items vars model d1 r from
          hr'.elim (fun e => Or.inr (Or.inl e)) (fun e => Or.inr (Or.inr (Or.inl e)))) with
        ⟨_, cb, hcb, _⟩ | ⟨hni, _⟩
      · rcases hr' with rfl | hx
        · obtain ⟨_, ⟨cb0, hcb0⟩, _⟩ := B.hitems _ hm
          rw [hc0] at hcb0; cases hcb0
        · rcases B.hmodel with ⟨e, _⟩ | ⟨m, e, ⟨hc, _⟩ | ⟨_, p, mr, hp, _⟩⟩
          · rw [e] at hx; cases hx
          · cases hc
          · rw [e] at hx; cases hx; rw [hp] at hcb; cases hcb
      · exact hni hm
  · -- a list handed to the second constructor is outside the footprint of `d1`
    intro l hl hf
    subst hl
    have hll : read h1 l = some (.list items2) := getList_eq_some.mp B2.arg_items
    rcases built_foot B hf with rfl | rfl | hm | hm
    · rw [B.hd] at hll; cases hll
    · rw [B.hvars] at hll; cases hll
    · rcases B.hmodel with ⟨_, e⟩ | ⟨m, _, ⟨hc, _⟩ | ⟨_, p, mr, _, e, _, hp⟩⟩
      · rw [e] at hm; cases hm
      · cases hc
      · rw [e] at hm; cases hm; rw [hp] at hll; cases hll
    · obtain ⟨_, _, cb, hcb, _⟩ := B.hitems l hm
      rw [hcb] at hll; cases hll

/-- **isolation** (C16, object level): two detectors constructed from the SAME configuration object
(callbacks: `None`, one callback, or a caller-owned list — but no common callback object); then for
EVERY history `ops` of `update`/`reset` calls on the first one, of any length:
every cell reachable from the second detector is unchanged, the set of cells reachable from it is
unchanged; and symmetrically for histories on the second detector. -/
theorem isolation {S : Sem D V R} {h0 h1 h2 : Heap D} {cfg d1 d2 : Ref} {a1 a2 : CbArg}
    (hn1 : newDetector S h0 cfg a1 = some (d1, h1)) (hn2 : newDetector S h1 cfg a2 = some (d2, h2))
    (hwf : ∀ r, Reach h0 cfg r → r < h0.length)
    (hdisj : ∀ i1 i2, ArgItems h0 a1 i1 → ArgItems h1 a2 i2 → ∀ c, c ∈ i1 → c ∉ i2) :
    (∀ (ops : List (SOp V)) (h' : Heap D), runOps (applyG true S d1) h2 ops = some h' →
      (∀ r, Reach h2 d2 r → read h' r = read h2 r) ∧ (∀ r, Reach h' d2 r ↔ Reach h2 d2 r)) ∧
    (∀ (ops : List (SOp V)) (h' : Heap D), runOps (applyG true S d2) h2 ops = some h' →
      (∀ r, Reach h2 d1 r → read h' r = read h2 r) ∧ (∀ r, Reach h' d1 r ↔ Reach h2 d1 r)) := by
  obtain ⟨s12, s21⟩ := construct_sep hn1 hn2 hwf hdisj
  exact ⟨fun ops h' hrun => let ⟨a, b, _⟩ := isolation_run ops s12 hrun; ⟨a, b⟩,
    fun ops h' hrun => let ⟨a, b, _⟩ := isolation_run ops s21 hrun; ⟨a, b⟩⟩

/-! ### interleaved histories -/

/-- the footprint of `d` is determined by cells reachable from `d` -/
theorem foot_of_frame {h h' : Heap D} {d : Ref} (hfr : ∀ r, Reach h d r → read h' r = read h r) {r : Ref}
    (hf : Foot h' d r) : Foot h d r := by
  obtain ⟨x, hx, hc⟩ := hf
  have hx0 : getDet h d = some x := by
    rw [getDet_eq_some, ← hfr d (Reach.refl _)]; exact getDet_eq_some.mp hx
  refine ⟨x, hx0, ?_⟩
  rcases hc with e | e | e | ⟨items', hl, hm⟩
  · exact Or.inl e
  · exact Or.inr (Or.inl e)
  · exact Or.inr (Or.inr (Or.inl e))
  · refine Or.inr (Or.inr (Or.inr ⟨items', ?_, hm⟩))
    rw [getList_eq_some, ← hfr x.callbacks (Reach.edge (getDet_eq_some.mp hx0) (by simp [edges]))]
    exact getList_eq_some.mp hl

/-- after a step, a cell reachable from anywhere was reachable before, or is a fresh allocated cell -/
theorem Step.reach {d : Ref} {h h' : Heap D} (hst : Step d h h') {a r : Ref} (hr : Reach h' a r) :
    Reach h a r ∨ (h.length ≤ r ∧ r < h'.length) := by
  refine Reach.subset (P := fun r => Reach h a r ∨ (h.length ≤ r ∧ r < h'.length)) ?_ hr (Or.inl (Reach.refl a))
  intro x o y hx hxo hy
  rcases hst.edge x o hxo y hy with hfresh | ⟨o0, ho0, hy0⟩
  · exact Or.inr hfresh
  · rcases hx with hx | ⟨hge, _⟩
    · exact Or.inl (hx.trans (Reach.edge ho0 hy0))
    · exact absurd (read_lt ho0) (Nat.not_lt.mpr hge)

/-- an operation on `d2` also keeps the invariant in the OTHER direction -/
theorem sep_step_other {h h' : Heap D} {d1 d2 : Ref} (s12 : Sep h d1 d2) (s21 : Sep h d2 d1) (hst : Step d2 h h') :
    Sep h' d1 d2 := by
  have hfr := (sep_step s21 hst).1
  refine ⟨fun r hr => ?_, fun r hr hf => ?_⟩
  · rcases hst.reach hr with h0 | ⟨_, hlt⟩
    · exact Nat.lt_of_lt_of_le (s12.alloc r h0) hst.len
    · exact hlt
  · have hf0 := foot_of_frame hfr hf
    have hlt := s21.alloc r (foot_reach hf0)
    rcases hst.reach hr with h0 | ⟨hge, _⟩
    · exact s12.disj r h0 hf0
    · exact absurd hlt (Nat.not_lt.mpr hge)

/-- mutual separation -/
def Sep2 (h : Heap D) (d1 d2 : Ref) : Prop := Sep h d1 d2 ∧ Sep h d2 d1

theorem sep2_applyTo {S : Sem D V R} {h h' : Heap D} {d1 d2 : Ref} (hs : Sep2 h d1 d2) (e : Bool × SOp V)
    (hop : applyTo S d1 d2 h e = some h') :
    Sep2 h' d1 d2 ∧ ∀ r, Reach h (if e.1 then d1 else d2) r → read h' r = read h r := by
  obtain ⟨b, op⟩ := e
  cases b with
  | false =>
    have hst : Step d1 h h' := apply_step hop
    obtain ⟨a1, _, a3⟩ := sep_step hs.1 hst
    exact ⟨⟨a3, sep_step_other hs.2 hs.1 hst⟩, a1⟩
  | true =>
    have hst : Step d2 h h' := apply_step hop
    obtain ⟨a1, _, a3⟩ := sep_step hs.2 hst
    exact ⟨⟨sep_step_other hs.1 hs.2 hst, a3⟩, a1⟩

theorem sep2_run {S : Sem D V R} {d1 d2 : Ref} (σ : List (Bool × SOp V)) {h h' : Heap D} (hs : Sep2 h d1 d2)
    (hrun : runOps (applyTo S d1 d2) h σ = some h') : Sep2 h' d1 d2 := by
  induction σ generalizing h with
  | nil => simp only [runOps, Option.some.injEq] at hrun; subst hrun; exact hs
  | cons e σ ih =>
    simp only [runOps] at hrun
    split at hrun
    · next h1 hop => exact ih (sep2_applyTo hs e hop).1 hrun
    · exact absurd hrun (by simp)

/-- **isolation under every interleaving** (C16, object level): two detectors constructed from the
SAME configuration object, as in `isolation`.  After ANY schedule `σ` of `update`/`reset` calls addressed
to either of them in any order, ANY further call addressed to one of them (`b = false`: the first,
`b = true`: the second) leaves every cell reachable from the OTHER one unchanged.  (Prefixes of a
schedule are schedules: this is the statement "at every step of every interleaving".) -/
theorem isolation_interleaved {S : Sem D V R} {h0 h1 h2 : Heap D} {cfg d1 d2 : Ref} {a1 a2 : CbArg}
    (hn1 : newDetector S h0 cfg a1 = some (d1, h1)) (hn2 : newDetector S h1 cfg a2 = some (d2, h2))
    (hwf : ∀ r, Reach h0 cfg r → r < h0.length)
    (hdisj : ∀ i1 i2, ArgItems h0 a1 i1 → ArgItems h1 a2 i2 → ∀ c, c ∈ i1 → c ∉ i2)
    (σ : List (Bool × SOp V)) {ha : Heap D} (hrun : runOps (applyTo S d1 d2) h2 σ = some ha)
    (b : Bool) (op : SOp V) {hb : Heap D} (hop : applyTo S d1 d2 ha (b, op) = some hb) :
    ∀ r, Reach ha (if b then d1 else d2) r → read hb r = read ha r :=
  (sep2_applyTo (sep2_run σ (construct_sep hn1 hn2 hwf hdisj) hrun) (b, op) hop).2

/-! ## concrete instances: non-vacuity of the theorems, witnesses for the aliasing variants -/

/-- a concrete semantics on `Nat`: counters count, containers and model parameters accumulate the
values, the history records `100 * counter + value` -/
def S0 : Sem Nat Nat Nat where
  initOwn := fun _ => 0
  initVars := fun _ => 0
  stepOwn := fun _ own _ _ _ => own + 1
  stepVars := fun _ _ vd _ v => vd + v
  stepModel := fun _ _ _ p v => p + v
  snap := fun own _ v => 100 * own + v
  fitAux := fun x => x
  stat := fun aux r x => aux + r + x
  fires := fun alpha r => decide (r ≤ alpha)

/-- cell 0: a BOCD model object (parameters `7`); cell 1: a configuration object referring to it -/
def hA : Heap Nat := [.data 7, .config 1 (some 0)]

theorem hA_wf : ∀ r, Reach hA 1 r → r < hA.length := by
  intro r hr
  refine Reach.subset (P := fun r => r < hA.length) ?_ hr (by decide)
  intro x o y hx hxo hy
  have hx' : x = 0 ∨ x = 1 := by
    simp only [hA, List.length_cons, List.length_nil] at hx
    romega
  rcases hx' with rfl | rfl
  · have : o = .data 7 := by simpa [Heap.read, hA] using hxo.symm
    subst this; cases hy
  · have : o = .config 1 (some 0) := by simpa [Heap.read, hA] using hxo.symm
    subst this
    simp only [edges, Option.toList, List.mem_singleton] at hy
    subst hy; decide

/-! ### isolation: non-vacuity and the aliasing variants -/

/-- no callbacks handed to the first constructor: the disjointness hypothesis holds trivially -/
theorem hdisj_none {D : Type} {h0 h1 : Heap D} {a2 : CbArg} :
    ∀ i1 i2, ArgItems h0 .none i1 → ArgItems h1 a2 i2 → ∀ c, c ∈ i1 → c ∉ i2 := by
  intro i1 i2 h1 _ c hc
  have : i1 = [] := h1
  subst this; cases hc

/-- the store after `d1 = Detector(cfg)` (cell 5), `d2 = Detector(cfg)` (cell 9), code AS WRITTEN: the two
detectors share the configuration (cell 1) but each has its own model copy (cells 4, 8) -/
def hA2 : Heap Nat :=
  [.data 7, .config 1 (some 0),
   .list [], .data 0, .data 7, .detector ⟨some 1, 2, 3, some 4, none, 0⟩,
   .list [], .data 0, .data 7, .detector ⟨some 1, 6, 7, some 8, none, 0⟩]

theorem hA2_built : ∃ h1, newDetector S0 hA 1 .none = some (5, h1) ∧ newDetector S0 h1 1 .none = some (9, hA2) :=
  ⟨_, rfl, rfl⟩

/-- non-vacuity of `isolation`: a shared BOCD-like configuration, two detectors, the history
`reset, update 5, update 6` on the first one succeeds; the second detector still reaches the
shared model (cell 0) and its own copy (cell 8), both untouched -/
example : ∃ h', runOps (applyG true S0 5) hA2 [.reset, .update 5, .update 6] = some h' ∧
    Reach hA2 9 0 ∧ Reach hA2 9 8 ∧ read h' 0 = read hA2 0 ∧ read h' 8 = read hA2 8 ∧
    read h' 5 ≠ read hA2 5 := by
  obtain ⟨h1, e1, e2⟩ := hA2_built
  have key := (isolation e1 e2 hA_wf hdisj_none).1 [.reset, .update 5, .update 6] _ rfl
  have r0 : Reach hA2 9 0 :=
    (Reach.edge (h := hA2) (a := 9) (b := 1) rfl (by decide)).trans (Reach.edge (a := 1) (b := 0) rfl (by decide))
  have r8 : Reach hA2 9 8 := Reach.edge (h := hA2) (a := 9) (b := 8) rfl (by decide)
  exact ⟨_, rfl, r0, r8, key.1 0 r0, key.1 8 r8, by decide⟩

/-- **VARIANT 1 (constructor without the deep copy)**: `self._model = self.config.model`.  Same store,
same configuration, same arguments as above (so every hypothesis of `isolation` holds), but ONE
`update` of the first detector changes cell 0, which the second detector reaches: the conclusion of
`isolation` is false for the variant. -/
theorem isolation_noCopyCtor_witness :
    ∃ (h1 h2 h' : Heap Nat) (d1 d2 : Ref),
      newDetectorG false S0 hA 1 .none = some (d1, h1) ∧ newDetectorG false S0 h1 1 .none = some (d2, h2) ∧
      runOps (applyG false S0 d1) h2 [.update 5] = some h' ∧
      Reach h2 d2 0 ∧ read h' 0 ≠ read h2 0 :=
  ⟨_, _, _, 4, 7, rfl, rfl, rfl, Reach.edge (a := 7) (b := 0) rfl (by decide), by decide⟩

/-- **VARIANT 2 (`reset` without the deep copy)**: constructors as written, but `reset` does
`self._model = self.config.model`.  After `reset, update 5` on the first detector the configuration's
model (cell 0), reachable from the second detector through the shared configuration, has changed. -/
theorem isolation_noCopyReset_witness :
    ∃ h', runOps (applyG false S0 5) hA2 [.reset, .update 5] = some h' ∧
      Reach hA2 9 0 ∧ read h' 0 ≠ read hA2 0 :=
  ⟨_, rfl,
    (Reach.edge (h := hA2) (a := 9) (b := 1) rfl (by decide)).trans (Reach.edge (a := 1) (b := 0) rfl (by decide)),
    by decide⟩

/-- cell 0: a `HistoryConceptDrift` object; cell 1: the caller's list `[cb]`; cell 2: a configuration -/
def hS : Heap Nat := [.callback ⟨.history, none, []⟩, .list [0], .config 1 none]

/-- **the code AS WRITTEN does not isolate detectors that are handed the same callbacks list**
(hypothesis `hdisj` of `isolation` is necessary): `d1 = Detector(cfg, callbacks=l)`, `d2 = Detector(cfg, callbacks=l)`.
The list is stored as given, the second `set_detector` overwrites the callback's back-reference; one
`update(5)` of `d1` (whose counter becomes 1) appends to the callback reachable from `d2`, and what
it records, `5 = 100 * 0 + 5`, is the counter of `d2`, not of `d1`. -/
theorem isolation_sharedCallbacks_witness :
    ∃ (h1 h2 h' : Heap Nat) (d1 d2 : Ref),
      newDetector S0 hS 2 (.list 1) = some (d1, h1) ∧ newDetector S0 h1 2 (.list 1) = some (d2, h2) ∧
      runOps (applyG true S0 d1) h2 [.update 5] = some h' ∧
      Reach h2 d2 0 ∧ read h2 0 = some (.callback ⟨.history, some d2, []⟩) ∧
      read h' 0 = some (.callback ⟨.history, some d2, [5]⟩) ∧
      (getDet h' d1).map (·.own) = some 1 ∧ (getDet h' d2).map (·.own) = some 0 :=
  ⟨_, _, _, 4, 6, rfl, rfl, rfl,
    (Reach.edge (a := 6) (b := 1) rfl (by decide)).trans (Reach.edge (a := 1) (b := 0) rfl (by decide)),
    rfl, rfl, rfl, rfl⟩


/-- non-vacuity of `isolation_interleaved`: a schedule alternating between the two detectors of `hA2`
runs, and a further `update` of the first one leaves the cells the second one reaches unchanged -/
example : ∃ ha hb, runOps (applyTo S0 5 9) hA2 [(false, .update 5), (true, .update 6), (false, .reset), (true, .update 1)] = some ha ∧
    applyTo S0 5 9 ha (false, .update 9) = some hb ∧ (∀ r, Reach ha 9 r → read hb r = read ha r) ∧
    read hb 5 ≠ read ha 5 := by
  obtain ⟨h1, e1, e2⟩ := hA2_built
  refine ⟨_, _, rfl, rfl, ?_, by decide⟩
  exact isolation_interleaved e1 e2 hA_wf hdisj_none
    [(false, .update 5), (true, .update 6), (false, .reset), (true, .update 1)] rfl false (.update 9) rfl

/-- the hypothesis `hwf` (no dangling reference below the configuration) of `isolation` is necessary
in the model: if the configuration's `model` field dangles, the first constructor may allocate its own
container exactly there (cell 2), and the second detector then reaches a cell the first one writes.
(Python has no dangling references; the hypothesis only excludes stores that are not Python heaps.) -/
theorem isolation_dangling_witness :
    ∃ (h1 h2 h' : Heap Nat) (d1 d2 : Ref),
      newDetector S0 [.config 1 (some 2)] 0 .none = some (d1, h1) ∧ newDetector S0 h1 0 .none = some (d2, h2) ∧
      runOps (applyG true S0 d1) h2 [.update 5] = some h' ∧ Reach h2 d2 2 ∧ read h' 2 ≠ read h2 2 :=
  ⟨_, _, _, 4, 8, rfl, rfl, rfl,
    (Reach.edge (a := 8) (b := 0) rfl (by decide)).trans (Reach.edge (a := 0) (b := 2) rfl (by decide)), by decide⟩

/-! ## 2. `compare` is pure (C14) -/

/-- what the `on_compare_end` loop does when the result is `r`: the only cells that can change are
DETECTOR cells that a firing `ResetStatisticalTest` callback of the list points back to, and they
change only by `X_ref := None` -/
def ResetOnly (S : Sem D V R) (r : R) (items : List Ref) (h h' : Heap D) : Prop :=
  h'.length = h.length ∧
  ∀ q, read h' q = read h q ∨
    ∃ dx, read h q = some (.detector dx) ∧ read h' q = some (.detector { dx with xref := none }) ∧
      ∃ c ∈ items, ∃ cb alpha, read h c = some (.callback cb) ∧ cb.kind = .resetTest alpha ∧
        S.fires alpha r = true ∧ cb.detector = some q

theorem ResetOnly.refl (S : Sem D V R) (r : R) (items : List Ref) (h : Heap D) : ResetOnly S r items h h :=
  ⟨rfl, fun _ => Or.inl rfl⟩

theorem ResetOnly.trans {S : Sem D V R} {r : R} {items : List Ref} {h1 h2 h3 : Heap D}
    (a : ResetOnly S r items h1 h2) (b : ResetOnly S r items h2 h3) : ResetOnly S r items h1 h3 := by
  refine ⟨b.1.trans a.1, fun q => ?_⟩
  -- a callback cell of `h2` is the same cell in `h1`
  have hcb : ∀ c cb, read h2 c = some (.callback cb) → read h1 c = some (.callback cb) := by
    intro c cb hc
    rcases a.2 c with e | ⟨dx, _, e, _⟩
    · rw [← e]; exact hc
    · rw [e] at hc; cases hc
  rcases b.2 q with hb | ⟨dx, hb1, hb2, c, hc, cb, alpha, hcb2, hk, hf, hd⟩
  · rcases a.2 q with ha | ⟨dx, ha1, ha2, w⟩
    · exact Or.inl (hb.trans ha)
    · exact Or.inr ⟨dx, ha1, hb.trans ha2, w⟩
  · rcases a.2 q with ha | ⟨dx0, ha1, ha2, w⟩
    · exact Or.inr ⟨dx, ha ▸ hb1, hb2, c, hc, cb, alpha, hcb c cb hcb2, hk, hf, hd⟩
    · rw [ha2] at hb1
      cases hb1
      exact Or.inr ⟨dx0, ha1, hb2, w⟩

theorem onCompareEnd_resetOnly {S : Sem D V R} {r : R} {items : List Ref} {h h' : Heap D} {c : Ref} (hc : c ∈ items)
    (hrun : onCompareEnd S r h c = some h') : ResetOnly S r items h h' := by
  unfold onCompareEnd at hrun
  split at hrun
  · exact absurd hrun (by simp)
  next cb hcb =>
  split at hrun
  · simp only [Option.some.injEq] at hrun; subst hrun; exact ResetOnly.refl S r items h
  next alpha hk =>
  split at hrun
  · next hf =>
    split at hrun
    · exact absurd hrun (by simp)
    next det hdet =>
    unfold batchReset at hrun
    split at hrun
    · exact absurd hrun (by simp)
    next dx hdx =>
    simp only [Option.some.injEq] at hrun
    subst hrun
    have hdr := getDet_eq_some.mp hdx
    refine ⟨length_write _ _ _, fun q => ?_⟩
    by_cases hq : q = det
    · subst hq
      exact Or.inr ⟨dx, hdr, read_write_eq _ (read_lt hdr), c, hc, cb, alpha, getCb_eq_some.mp hcb, hk, hf, hdet⟩
    · exact Or.inl (read_write_ne _ hq)
  · simp only [Option.some.injEq] at hrun; subst hrun; exact ResetOnly.refl S r items h

/-- `compare`, decomposed: the result is the one computed by `_compare` on the store BEFORE any
callback ran, and the store changes only as described by `ResetOnly` -/
theorem compare_spec {S : Sem D V R} {h h' : Heap D} {d x : Ref} {r : R} (hrun : Heap.compare S h d x = some (r, h')) :
    compareCore S h d x = some r ∧ ∃ items, callbacksOf h d = some items ∧ ResetOnly S r items h h' := by
  unfold Heap.compare at hrun
  split at hrun
  · exact absurd hrun (by simp)
  next items hitems =>
  split at hrun
  · exact absurd hrun (by simp)
  next r' hcore =>
  split at hrun
  · exact absurd hrun (by simp)
  next h'' hfor =>
  simp only [Option.some.injEq, Prod.mk.injEq] at hrun
  obtain ⟨rfl, rfl⟩ := hrun
  exact ⟨hcore, items, hitems,
    forEach_rel (ResetOnly S r' items) (ResetOnly.refl S r' items) (fun _ _ _ => ResetOnly.trans)
      (fun _ _ _ hc hf => onCompareEnd_resetOnly hc hf) hfor⟩

/-- the result depends only on the contents of three cells: the fitted reference array, the test
array, the detector's auxiliary attributes -/
theorem compare_result {S : Sem D V R} {h h' : Heap D} {d x : Ref} {r : R} (hrun : Heap.compare S h d x = some (r, h')) :
    ∃ dx rx rd xd aux, getDet h d = some dx ∧ dx.xref = some rx ∧ getData h rx = some rd ∧
      getData h x = some xd ∧ getData h dx.vars = some aux ∧ r = S.stat aux rd xd := by
  have hcore := (compare_spec hrun).1
  unfold compareCore at hcore
  split at hcore
  · exact absurd hcore (by simp)
  next dx hdx =>
  split at hcore
  · exact absurd hcore (by simp)
  next rx hrx =>
  split at hcore
  · next rd xd aux h1 h2 h3 =>
    simp only [Option.some.injEq] at hcore
    exact ⟨dx, rx, rd, xd, aux, hdx, hrx, h1, h2, h3, hcore.symm⟩
  · exact absurd hcore (by simp)

/-- no `ResetStatisticalTest` callback of the detector fires on result `r` -/
def Quiet (S : Sem D V R) (h : Heap D) (d : Ref) (r : R) : Prop :=
  ∀ items, callbacksOf h d = some items → ∀ c ∈ items, ∀ cb alpha,
    read h c = some (.callback cb) → cb.kind = .resetTest alpha → S.fires alpha r = false

/-- **compare is pure** (C14, object level): unless an attached `ResetStatisticalTest` fires,
`compare` leaves the WHOLE store as it was — the detector object, its fitted reference array, its
auxiliary attributes, its callbacks, the caller's test array, and every other object. -/
theorem compare_pure {S : Sem D V R} {h h' : Heap D} {d x : Ref} {r : R} (hrun : Heap.compare S h d x = some (r, h'))
    (hq : Quiet S h d r) : h' = h := by
  obtain ⟨_, items, hitems, hro⟩ := compare_spec hrun
  apply heap_ext
  intro q
  rcases hro.2 q with e | ⟨_, _, _, c, hc, cb, alpha, hcb, hk, hf, _⟩
  · exact e
  · rw [hq items hitems c hc cb alpha hcb hk] at hf; cases hf

/-- in particular no cell reachable from the detector is written -/
theorem compare_pure_reach {S : Sem D V R} {h h' : Heap D} {d x : Ref} {r : R} (hrun : Heap.compare S h d x = some (r, h'))
    (hq : Quiet S h d r) : ∀ q, Reach h d q → read h' q = read h q := by
  intro q _; rw [compare_pure hrun hq]

/-- a detector without callbacks is always quiet -/
theorem quiet_of_no_callbacks {S : Sem D V R} {h : Heap D} {d : Ref} (r : R) (hnil : callbacksOf h d = some []) :
    Quiet S h d r := by
  intro items hitems c hc
  rw [hnil] at hitems; cases hitems; cases hc

/-- repeating a quiet `compare` gives the same result and the same store, any number of times -/
theorem compare_repeat {S : Sem D V R} {h h' : Heap D} {d x : Ref} {r : R} (hrun : Heap.compare S h d x = some (r, h'))
    (hq : Quiet S h d r) : Heap.compare S h' d x = some (r, h') := by
  have := compare_pure hrun hq
  subst this; exact hrun

/-- even when a reset callback fires: arrays, auxiliary attributes, callbacks, lists and
configurations are never written by `compare`; a detector cell can change only by `X_ref := None`,
and only if a firing `ResetStatisticalTest` of the compared detector points back to it -/
theorem compare_writes {S : Sem D V R} {h h' : Heap D} {d x : Ref} {r : R} (hrun : Heap.compare S h d x = some (r, h')) :
    h'.length = h.length ∧
    ∀ q, read h' q = read h q ∨
      ∃ dx, read h q = some (.detector dx) ∧ read h' q = some (.detector { dx with xref := none }) ∧
        ∃ items, callbacksOf h d = some items ∧ ∃ c ∈ items, ∃ cb alpha, read h c = some (.callback cb) ∧
          cb.kind = .resetTest alpha ∧ S.fires alpha r = true ∧ cb.detector = some q := by
  obtain ⟨_, items, hitems, hro⟩ := compare_spec hrun
  refine ⟨hro.1, fun q => ?_⟩
  rcases hro.2 q with e | ⟨dx, h1, h2, w⟩
  · exact Or.inl e
  · exact Or.inr ⟨dx, h1, h2, items, hitems, w⟩

/-- the fitted reference ARRAY is never written by `compare` (fired reset or not) -/
theorem compare_ref_untouched {S : Sem D V R} {h h' : Heap D} {d x : Ref} {r : R}
    (hrun : Heap.compare S h d x = some (r, h')) {q : Ref} {p : D} (hp : read h q = some (.data p)) :
    read h' q = some (.data p) := by
  rcases (compare_writes hrun).2 q with e | ⟨dx, h1, _⟩
  · rw [e]; exact hp
  · rw [hp] at h1; cases h1


/-- `reset()` of a batch detector writes the detector object only, and only `X_ref := None` (the
auxiliary attributes written by `_fit`, the callbacks and the array are left as they are) -/
theorem batchReset_spec {h h' : Heap D} {d : Ref} (hrun : batchReset h d = some h') :
    ∃ dx, getDet h d = some dx ∧ getDet h' d = some { dx with xref := none } ∧ h'.length = h.length ∧
      ∀ r, r ≠ d → read h' r = read h r := by
  unfold batchReset at hrun
  split at hrun
  · exact absurd hrun (by simp)
  next dx hdx =>
  simp only [Option.some.injEq] at hrun
  subst hrun
  have hd := getDet_eq_some.mp hdx
  exact ⟨dx, hdx, by rw [getDet_eq_some, read_write_eq _ (read_lt hd)], by simp, fun r hr => read_write_ne _ hr⟩

/-- **reset unfits**: after `reset()` every `compare` is rejected (`MissingFitError`), whatever the
test sample, and nothing is written by the rejected call -/
theorem batchReset_unfits {S : Sem D V R} {h h' : Heap D} {d : Ref} (hrun : batchReset h d = some h') (x : Ref) :
    Heap.compare S h' d x = none := by
  obtain ⟨dx, _, hd', _⟩ := batchReset_spec hrun
  have hcore : compareCore S h' d x = none := by
    unfold compareCore; rw [hd']
  unfold Heap.compare
  rw [hcore]
  split <;> rfl

/-- a detector that was never fitted rejects `compare` as well -/
theorem compare_unfitted {S : Sem D V R} {h : Heap D} {d x : Ref} {dx : Det D} (hd : getDet h d = some dx)
    (hx : dx.xref = none) : Heap.compare S h d x = none := by
  have hcore : compareCore S h d x = none := by
    unfold compareCore; rw [hd]; simp only [hx]
  unfold Heap.compare
  rw [hcore]
  split <;> rfl

/-- `fit` stores THE CALLER'S array object (`self.X_ref = X`, no copy): afterwards the detector's
`X_ref` field is the very reference that was passed in -/
theorem fit_aliases {S : Sem D V R} {h h' : Heap D} {d x : Ref} (hrun : fit S h d x = some h') :
    ∃ dx, getDet h' d = some dx ∧ dx.xref = some x := by
  unfold fit at hrun
  split at hrun
  · exact absurd hrun (by simp)
  next dx hdx =>
  split at hrun
  · exact absurd hrun (by simp)
  split at hrun
  · exact absurd hrun (by simp)
  next aux haux =>
  simp only [Option.some.injEq] at hrun
  subst hrun
  have hd := getDet_eq_some.mp hdx
  have hv := getData_eq_some.mp haux
  have hdv : d ≠ dx.vars := by intro e; rw [e, hv] at hd; cases hd
  exact ⟨{ dx with xref := some x }, by
    rw [getDet_eq_some, read_write_ne _ hdv, read_write_eq _ (read_lt hd)], rfl⟩

/-! ### `compare`: non-vacuity, the caching variant, the reset callback, the aliased reference -/

/-- cell 0: the reference array (`10`); cell 1: the test array (`3`); then `det = Detector()` (cell 4, own
list 2, auxiliary attributes 3), fitted on cell 0 -/
def hB2 : Heap Nat :=
  [.data 10, .data 3, .list [], .data 10, .detector ⟨none, 2, 3, none, some 0, 0⟩]

theorem hB2_built : ∃ h1, newBatch [.data 10, .data 3] .none 0 0 = some (4, h1) ∧ fit S0 h1 4 0 = some hB2 :=
  ⟨_, rfl, rfl⟩

/-- non-vacuity of `compare_pure`: the call succeeds, is quiet (no callbacks), result `23`, store unchanged -/
example : Heap.compare S0 hB2 4 1 = some (23, hB2) ∧ Quiet S0 hB2 4 23 :=
  ⟨rfl, quiet_of_no_callbacks 23 rfl⟩

/-- **VARIANT (a `compare` that caches the test sample on the detector)**: same store, same call.  The
result of the first call is the same, `23`, but the store has changed in cell 3, reachable from the
detector — `compare_pure` is false for the variant — and the second, identical call returns `16`. -/
theorem compare_pure_witness :
    ∃ h', compareCaching S0 hB2 4 1 = some (23, h') ∧ Quiet S0 hB2 4 23 ∧ h' ≠ hB2 ∧
      Reach hB2 4 3 ∧ read h' 3 ≠ read hB2 3 ∧ (compareCaching S0 h' 4 1).map (·.1) = some 16 :=
  ⟨_, rfl, quiet_of_no_callbacks 23 rfl, by decide, Reach.edge (a := 4) (b := 3) rfl (by decide), by decide, rfl⟩

/-- cell 2: a `ResetStatisticalTest(alpha = 100)`; `det = Detector(callbacks=cb)` (cell 5), fitted on cell 0 -/
def hC2 : Heap Nat :=
  [.data 10, .data 3, .callback ⟨.resetTest 100, some 5, []⟩, .list [2], .data 10,
   .detector ⟨none, 3, 4, none, some 0, 0⟩]

theorem hC2_built : ∃ h1, newBatch [.data 10, .data 3, .callback ⟨.resetTest 100, none, []⟩] (.single 2) 0 0 = some (5, h1) ∧
    fit S0 h1 5 0 = some hC2 :=
  ⟨_, rfl, rfl⟩

/-- the hypothesis `Quiet` of `compare_pure` is necessary: with a firing `ResetStatisticalTest`
(`23 ≤ 100`) the detector object IS written (`X_ref := None`, the intended behaviour of that
callback); the result `23` is the one computed before the reset, and the arrays are untouched -/
theorem compare_reset_witness :
    ∃ h', Heap.compare S0 hC2 5 1 = some (23, h') ∧ ¬ Quiet S0 hC2 5 23 ∧
      read h' 5 = some (.detector ⟨none, 3, 4, none, none, 0⟩) ∧ read h' 0 = read hC2 0 ∧
      compareCore S0 hC2 5 1 = some 23 ∧ compareCore S0 h' 5 1 = none := by
  refine ⟨_, rfl, ?_, rfl, rfl, rfl, rfl⟩
  intro hq
  have := hq [2] rfl 2 (by simp) ⟨.resetTest 100, some 5, []⟩ 100 rfl rfl
  revert this; decide

/-- **the fitted reference is the caller's array, not a snapshot**: after `fit(X)`, an in-place
mutation of `X` by the caller (`X[...] = 99`; no detector method is called) changes what `compare`
returns (`23` before, `112` after) -/
theorem fit_alias_witness :
    (Heap.compare S0 hB2 4 1).map (·.1) = some 23 ∧
    (Heap.compare S0 (write hB2 0 (.data 99)) 4 1).map (·.1) = some 112 :=
  ⟨rfl, rfl⟩

/-! ## 3. Callbacks are transparent (C17) -/

/-- two stores that differ at most in the contents of callback objects -/
def Agree (h1 h2 : Heap D) : Prop :=
  h1.length = h2.length ∧
  ∀ r, read h1 r = read h2 r ∨ ∃ cb1 cb2, read h1 r = some (.callback cb1) ∧ read h2 r = some (.callback cb2)

theorem Agree.refl (h : Heap D) : Agree h h := ⟨rfl, fun _ => Or.inl rfl⟩

theorem Agree.symm {h1 h2 : Heap D} (a : Agree h1 h2) : Agree h2 h1 := by
  refine ⟨a.1.symm, fun r => ?_⟩
  rcases a.2 r with e | ⟨c1, c2, e1, e2⟩
  · exact Or.inl e.symm
  · exact Or.inr ⟨c2, c1, e2, e1⟩

theorem Agree.trans {h1 h2 h3 : Heap D} (a : Agree h1 h2) (b : Agree h2 h3) : Agree h1 h3 := by
  refine ⟨a.1.trans b.1, fun r => ?_⟩
  rcases a.2 r with e | ⟨c1, c2, e1, e2⟩
  · rcases b.2 r with f | ⟨c2', c3, f1, f2⟩
    · exact Or.inl (e.trans f)
    · exact Or.inr ⟨c2', c3, e ▸ f1, f2⟩
  · rcases b.2 r with f | ⟨c2', c3, f1, f2⟩
    · exact Or.inr ⟨c1, c2, e1, f ▸ e2⟩
    · exact Or.inr ⟨c1, c3, e1, f2⟩

theorem Agree.of_cbOnly {items : List Ref} {h h' : Heap D} (a : CbOnly items h h') : Agree h' h := by
  refine ⟨a.1, fun r => ?_⟩
  rcases a.2 r with e | ⟨_, cb, cb', e1, e2, _⟩
  · exact Or.inl e
  · exact Or.inr ⟨cb', cb, e2, e1⟩

/-- a cell that is not a callback is the same in both stores -/
theorem Agree.read {h1 h2 : Heap D} (a : Agree h1 h2) {r : Ref} {o : Obj D} (hr : read h1 r = some o)
    (hn : ∀ cb, o ≠ .callback cb) : read h2 r = some o := by
  rcases a.2 r with e | ⟨c1, _, e1, _⟩
  · rw [← e]; exact hr
  · rw [hr] at e1; cases e1; exact absurd rfl (hn c1)

theorem Agree.getDet {h1 h2 : Heap D} (a : Agree h1 h2) {r : Ref} {x : Det D} (hr : getDet h1 r = some x) :
    getDet h2 r = some x :=
  getDet_eq_some.mpr (a.read (getDet_eq_some.mp hr) (by intro cb hc; cases hc))
theorem Agree.getCfg {h1 h2 : Heap D} (a : Agree h1 h2) {r : Ref} {p : D × Option Ref} (hr : getCfg h1 r = some p) :
    getCfg h2 r = some p :=
  getCfg_eq_some.mpr (a.read (getCfg_eq_some.mp hr) (by intro cb hc; cases hc))
theorem Agree.getData {h1 h2 : Heap D} (a : Agree h1 h2) {r : Ref} {p : D} (hr : getData h1 r = some p) :
    getData h2 r = some p :=
  getData_eq_some.mpr (a.read (getData_eq_some.mp hr) (by intro cb hc; cases hc))

/-- the same write on both sides -/
theorem Agree.write {h1 h2 : Heap D} (a : Agree h1 h2) (r : Ref) (o : Obj D) :
    Agree (write h1 r o) (write h2 r o) := by
  refine ⟨by simp [a.1], fun q => ?_⟩
  rw [read_write, read_write, a.1]
  by_cases hq : r = q
  · simp [hq]
  · simp only [hq, if_false]; exact a.2 q

/-- the same allocation on both sides -/
theorem Agree.append {h1 h2 : Heap D} (a : Agree h1 h2) (o : Obj D) : Agree (h1 ++ [o]) (h2 ++ [o]) := by
  refine ⟨by simp [a.1], fun q => ?_⟩
  by_cases hq : q < h1.length
  · rw [read_append_lt _ hq, read_append_lt _ (a.1 ▸ hq)]; exact a.2 q
  · left
    unfold Heap.read
    rw [List.getElem?_append_right (Nat.le_of_not_lt hq), List.getElem?_append_right (a.1 ▸ Nat.le_of_not_lt hq), a.1]

/-- `_update` reads no callback cell: on stores that agree off the callback cells it succeeds on
both and writes the same values to the same cells -/
theorem updateCore_agree {S : Sem D V R} {h1 h2 h1' : Heap D} {d : Ref} {v : V} (a : Agree h1 h2)
    (hrun : updateCore S h1 d v = some h1') : ∃ h2', updateCore S h2 d v = some h2' ∧ Agree h1' h2' := by
  unfold updateCore at hrun ⊢
  split at hrun
  · exact absurd hrun (by simp)
  next x hx =>
  split at hrun
  · exact absurd hrun (by simp)
  next cfg hcfg =>
  split at hrun
  · exact absurd hrun (by simp)
  next sc cm hsc =>
  split at hrun
  · exact absurd hrun (by simp)
  next vd hvd =>
  simp only [a.getDet hx, hcfg, a.getCfg hsc, a.getData hvd]
  split at hrun
  · next hm =>
    simp only [Option.some.injEq] at hrun
    subst hrun
    simp only [hm]
    refine ⟨_, rfl, ?_⟩
    rw [← hcfg]
    exact (a.write _ _).write _ _
  · next m hm =>
    split at hrun
    · exact absurd hrun (by simp)
    next p hp =>
    simp only [Option.some.injEq] at hrun
    subst hrun
    simp only [hm, a.getData hp]
    refine ⟨_, rfl, ?_⟩
    rw [← hcfg]
    exact ((a.write _ _).write _ _).write _ _

theorem copyModel_agree {copy : Bool} {h1 h2 h1' : Heap D} {cm model : Option Ref} (a : Agree h1 h2)
    (hrun : copyModel copy h1 cm = some (model, h1')) :
    ∃ h2', copyModel copy h2 cm = some (model, h2') ∧ Agree h1' h2' := by
  rcases copyModel_spec hrun with ⟨rfl, rfl, rfl⟩ | ⟨m, rfl, rfl, rfl, rfl⟩ | ⟨m, p, rfl, rfl, hp, rfl, rfl⟩
  · exact ⟨h2, rfl, a⟩
  · exact ⟨h2, by simp [copyModel], a⟩
  · exact ⟨h2 ++ [.data p], by simp [copyModel, a.getData hp, a.1], a.append _⟩

theorem resetCoreG_agree {copy : Bool} {S : Sem D V R} {h1 h2 h1' : Heap D} {d : Ref} (a : Agree h1 h2)
    (hrun : resetCoreG copy S h1 d = some h1') : ∃ h2', resetCoreG copy S h2 d = some h2' ∧ Agree h1' h2' := by
  unfold resetCoreG at hrun ⊢
  split at hrun
  · exact absurd hrun (by simp)
  next x hx =>
  split at hrun
  · exact absurd hrun (by simp)
  next cfg hcfg =>
  split at hrun
  · exact absurd hrun (by simp)
  next sc cm hsc =>
  split at hrun
  · exact absurd hrun (by simp)
  next vd hvd =>
  split at hrun
  · exact absurd hrun (by simp)
  next model h0 hcm =>
  simp only [Option.some.injEq] at hrun
  subst hrun
  obtain ⟨h0', hcm', a0⟩ := copyModel_agree a hcm
  simp only [a.getDet hx, hcfg, a.getCfg hsc, a.getData hvd, hcm']
  refine ⟨_, rfl, ?_⟩
  rw [← hcfg]
  exact (a0.write _ _).write _ _

theorem applyCore_agree {copy : Bool} {S : Sem D V R} {h1 h2 h1' : Heap D} {d : Ref} {op : SOp V} (a : Agree h1 h2)
    (hrun : applyCoreG copy S d h1 op = some h1') : ∃ h2', applyCoreG copy S d h2 op = some h2' ∧ Agree h1' h2' := by
  cases op with
  | update v => exact updateCore_agree a hrun
  | reset => exact resetCoreG_agree a hrun

/-- an operation WITH its callback loop = the same operation WITHOUT it, followed by writes to
callback objects only -/
theorem apply_eq_core {copy : Bool} {S : Sem D V R} {h h' : Heap D} {d : Ref} {op : SOp V}
    (hrun : applyG copy S d h op = some h') : ∃ hc, applyCoreG copy S d h op = some hc ∧ Agree h' hc := by
  cases op with
  | update v =>
    simp only [applyG, update] at hrun
    split at hrun
    · exact absurd hrun (by simp)
    next items _ =>
    split at hrun
    · exact absurd hrun (by simp)
    next hc hcore => exact ⟨hc, hcore, Agree.of_cbOnly (forEach_onUpdateEnd S v hrun)⟩
  | reset =>
    simp only [applyG, resetG] at hrun
    split at hrun
    · exact absurd hrun (by simp)
    next items _ =>
    split at hrun
    · exact absurd hrun (by simp)
    next hc hcore => exact ⟨hc, hcore, Agree.of_cbOnly (forEach_cbReset hrun)⟩

/-- **callbacks are transparent** (C17, object level), run form: take ANY store, ANY detector `d` in
it with ANY callbacks list (empty, one or many `HistoryConceptDrift` objects, shared with other
detectors or not) and ANY history of `update`/`reset` calls.  Running the history with the callback
loops and running it with the callback loops removed (`applyCoreG`: `_update` / the detector's own
`reset` only) succeed together and end in stores of the same size that agree on EVERY cell that is
not a callback object — the detector object (flags, counters), its containers, its model, the
configuration: everything the detector's own `_update` reads, at every step (take prefixes). -/
theorem callbacks_transparent {copy : Bool} {S : Sem D V R} {d : Ref} (ops : List (SOp V)) {h h' : Heap D}
    (hrun : runOps (applyG copy S d) h ops = some h') :
    ∃ hc, runOps (applyCoreG copy S d) h ops = some hc ∧ Agree h' hc := by
  suffices H : ∀ (ops : List (SOp V)) (ha hb ha' : Heap D), Agree ha hb → runOps (applyG copy S d) ha ops = some ha' →
      ∃ hb', runOps (applyCoreG copy S d) hb ops = some hb' ∧ Agree ha' hb' from H ops h h h' (Agree.refl h) hrun
  intro ops
  induction ops with
  | nil =>
    intro ha hb ha' a hr
    simp only [runOps, Option.some.injEq] at hr
    subst hr
    exact ⟨hb, rfl, a⟩
  | cons op ops ih =>
    intro ha hb ha' a hr
    simp only [runOps] at hr ⊢
    split at hr
    · next ha1 hop =>
      obtain ⟨hc, hcore, a1⟩ := apply_eq_core hop
      obtain ⟨hb1, hcore2, a2⟩ := applyCore_agree a hcore
      rw [hcore2]
      exact ih ha1 hb1 ha' (a1.trans a2) hr
    · exact absurd hr (by simp)

/-- the cells `_update` reads (detector object, configuration, own containers, own model) are not
callback cells, hence identical with and without callbacks: a direct corollary for one named cell -/
theorem callbacks_transparent_cell {copy : Bool} {S : Sem D V R} {d : Ref} (ops : List (SOp V)) {h h' : Heap D}
    (hrun : runOps (applyG copy S d) h ops = some h') :
    ∃ hc, runOps (applyCoreG copy S d) h ops = some hc ∧ h'.length = hc.length ∧
      ∀ r o, read hc r = some o → (∀ cb, o ≠ .callback cb) → read h' r = some o := by
  obtain ⟨hc, h1, a⟩ := callbacks_transparent ops hrun
  exact ⟨hc, h1, a.1, fun r o hr hn => a.symm.read hr hn⟩


/-- cell 0: a `HistoryConceptDrift`; cell 1: a configuration; then `det = Detector(cfg, callbacks=cb)` (cell 4) -/
def hD1 : Heap Nat :=
  [.callback ⟨.history, some 4, []⟩, .config 1 none, .list [0], .data 0, .detector ⟨some 1, 2, 3, none, none, 0⟩]

theorem hD1_built : newDetector S0 [.callback ⟨.history, none, []⟩, .config 1 none] 1 (.single 0) = some (4, hD1) := rfl

/-- non-vacuity of `callbacks_transparent`: the history `update 5, update 6, reset, update 7` succeeds
with the callback attached; the callback has recorded `[107]` (one entry since the reset), the run
without the callback loops has recorded nothing, and all the other cells are equal -/
example : ∃ h' hc, runOps (applyG true S0 4) hD1 [.update 5, .update 6, .reset, .update 7] = some h' ∧
    runOps (applyCoreG true S0 4) hD1 [.update 5, .update 6, .reset, .update 7] = some hc ∧
    read h' 0 = some (.callback ⟨.history, some 4, [107]⟩) ∧ read hc 0 = some (.callback ⟨.history, some 4, []⟩) ∧
    h'.drop 1 = hc.drop 1 :=
  ⟨_, _, rfl, rfl, rfl, rfl, rfl⟩

/-- transparency is a property of `HistoryConceptDrift`, not of callbacks in general: the batch callback
`ResetStatisticalTest` writes the detector (see `compare_reset_witness`), so the analogous statement
for `compare` is false — the object-level model can express a callback that is not transparent. -/
theorem callbacks_not_transparent_batch_witness :
    ∃ h', Heap.compare S0 hC2 5 1 = some (23, h') ∧ read h' 5 ≠ read hC2 5 :=
  ⟨_, rfl, by decide⟩


/- UNPROVED (full statement): "each detector reports what it would report alone", as an equality of
   runs rather than as a frame property.  For `σ : List (Bool × SOp V)` and the two detectors of
   `isolation`: if `runOps (applyTo S d1 d2) h2 σ = some ha` and
   `runOps (applyG true S d2) h2 ((σ.filter (·.1)).map (·.2)) = some hb`, then there is an injective
   renaming `ρ : Ref → Ref` of the references allocated after `h2` with `ρ d2 = d2` such that for every `r`
   with `Reach hb d2 r`: `Reach ha d2 (ρ r)` and `read ha (ρ r) = (read hb r).map (rename ρ)`.
   (Allocation addresses differ between the interleaved and the alone run as soon as the other
   detector's `reset` allocates a model copy, so the statement needs the renaming; what IS proved,
   `isolation_interleaved`, is the frame half: no step of the other detector changes any cell `d2`
   reaches.  The missing half is "an operation on `d2` depends only on the cells `d2` reaches".)

   UNPROVED (full statement): constructor-level transparency.  If
   `newDetector S h cfg .none = some (d, ha)` and `newDetector S h cfg arg = some (d', hb)` then the
   sub-stores reachable from `d` resp. `d'`, with callback cells and the list cell removed, are equal up
   to a renaming of references.  (Proved instead: `callbacks_transparent`, for one and the same detector
   object with its callback loops executed or skipped.) -/

/-! ## axioms -/
#print axioms isolation_run
#print axioms construct_sep
#print axioms newDetector_sep
#print axioms isolation
#print axioms isolation_interleaved
#print axioms isolation_noCopyCtor_witness
#print axioms isolation_noCopyReset_witness
#print axioms isolation_sharedCallbacks_witness
#print axioms isolation_dangling_witness
#print axioms compare_spec
#print axioms compare_result
#print axioms compare_pure
#print axioms compare_pure_reach
#print axioms compare_repeat
#print axioms compare_writes
#print axioms compare_ref_untouched
#print axioms compare_pure_witness
#print axioms compare_reset_witness
#print axioms batchReset_spec
#print axioms batchReset_unfits
#print axioms compare_unfitted
#print axioms fit_aliases
#print axioms fit_alias_witness
#print axioms callbacks_transparent
#print axioms callbacks_transparent_cell
#print axioms callbacks_not_transparent_batch_witness

end Frouros.C16b
