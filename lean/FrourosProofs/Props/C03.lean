/-
  C03 (part a, DDM) — the DDM model follows the published rule of Gama et al. (2004), as implemented by
  frouros (`ddm.py`): non-incremental specification of the state and of both flags after `t` updates.

  Carrier: `α = ℝ` (instance in `FrourosProofs/RealNum.lean`).

  Specification.  For a stream `xs` and `1 ≤ t ≤ xs.length`
    `pHat xs t  = (x₁ + … + x_t) / t`                     (error rate after `t` values)
    `sHat xs t  = √(pHat xs t * (1 - pHat xs t) / t)`     (its binomial standard deviation)
    `score xs t = pHat xs t + sHat xs t`
  and for `m = c.minN ≤ t`,  `j* = argminFirst (score xs) m t` is the FIRST index of `[m, t]` that minimises
  `score xs` (the code replaces the recorded minimum only on a strict `<`).  Then
    `drift_t   ⇔ m ≤ t ∧ score xs t > pHat xs j* + c.drift * sHat xs j*`
    `warning_t ⇔ m ≤ t ∧ ¬drift_t ∧ score xs t > pHat xs j* + c.warn * sHat xs j*`.
  NB. the model (like the Python code) updates the minimum BEFORE testing the thresholds, so `j*` ranges over
  `[m, t]` *including* `t` itself.
-/
import Mathlib.Tactic
import FrourosProofs.RealNum
import FrourosProofs.Machines
import FrourosProofs.Lemmas.PrefixMean

namespace Frouros.C03
open Frouros

/-! ### One DDM step, field by field (any carrier) -/
section generic
variable {α : Type} [Num α]

/-- the candidate `(error_rate + std, std)` computed by one DDM step -/
def ddmStepEps (s : DDM.State α) (v : α) : α × α := DDM.epsStd (s.er.update v) (s.n + 1)

/-- the recorded minimum after one DDM step that is past the warm-up -/
def ddmStepMin (s : DDM.State α) (v : α) : Option (α × α) :=
  if DDM.belowMin (ddmStepEps s v).1 s.minPS then some ((s.er.update v).mean, (ddmStepEps s v).2) else s.minPS

/-- Decision table of `DDM.step`, for EVERY carrier (so literally for IEEE doubles): the counters and the
error-rate estimator always advance; the minimum is only touched and the flags only raised once
`minN ≤ n`; `warning` is only raised when `drift` is not. -/
theorem ddm_step_fields (c : DDM.Cfg α) (s : DDM.State α) (v : α) :
    (DDM.step c s v).n = s.n + 1 ∧ (DDM.step c s v).er = s.er.update v ∧
    (DDM.step c s v).minPS = (if c.minN ≤ s.n + 1 then ddmStepMin s v else s.minPS) ∧
    (DDM.step c s v).drift =
      (decide (c.minN ≤ s.n + 1) && DDM.exceeds (ddmStepEps s v).1 (ddmStepMin s v) c.drift) ∧
    (DDM.step c s v).warning =
      (decide (c.minN ≤ s.n + 1) && !DDM.exceeds (ddmStepEps s v).1 (ddmStepMin s v) c.drift
        && DDM.exceeds (ddmStepEps s v).1 (ddmStepMin s v) c.warn) := by
  unfold DDM.step ddmStepMin ddmStepEps
  by_cases h : c.minN ≤ s.n + 1
  · simp only [h, if_true, decide_true, Bool.true_and]
    generalize DDM.exceeds _ _ c.drift = d
    generalize DDM.exceeds _ _ c.warn = w
    cases d <;> cases w <;> simp
  · simp [h]

/-- `minN` only enters through the test `minN ≤ n` with `n ≥ 1`, so `minN = 0` behaves exactly like
`minN = 1` (every carrier).  This is why `1 ≤ minN` in `ddm_spec` is no loss of generality. -/
theorem ddm_step_minN_zero (w d : α) : DDM.step (⟨w, d, 0⟩ : DDM.Cfg α) = DDM.step ⟨w, d, 1⟩ := by
  funext s v
  unfold DDM.step
  simp
end generic

theorem ddm_exceeds_some (e p sd lvl : ℝ) : DDM.exceeds e (some (p, sd)) lvl = decide (p + lvl * sd < e) := rfl
theorem ddm_belowMin_some (e p sd : ℝ) : DDM.belowMin e (some (p, sd)) = decide (e < p + sd) := rfl
theorem ddm_belowMin_none (e : ℝ) : DDM.belowMin e none = true := rfl

/-! ### First minimiser of a sequence on `[m, t]` -/

/-- Scan `m, m+1, …, t` and keep the index of the smallest value seen so far, replacing it only on a strict
`<` (so ties keep the EARLIER index).  For `t ≤ m` the result is `m`. -/
noncomputable def argminFirst (f : ℕ → ℝ) (m : ℕ) : ℕ → ℕ
  | 0 => m
  | t + 1 =>
    if t + 1 ≤ m then m
    else if f (t + 1) < f (argminFirst f m t) then t + 1 else argminFirst f m t

theorem argminFirst_of_le (f : ℕ → ℝ) {m t : ℕ} (h : t ≤ m) : argminFirst f m t = m := by
  cases t with
  | zero => rfl
  | succ t => simp [argminFirst, h]

theorem argminFirst_succ (f : ℕ → ℝ) {m t : ℕ} (h : m ≤ t) :
    argminFirst f m (t + 1) =
      if f (t + 1) < f (argminFirst f m t) then t + 1 else argminFirst f m t := by
  have h' : ¬ (t + 1 ≤ m) := by omega
  simp [argminFirst, h']

/-- the first minimiser lies in `[m, t]` -/
theorem argminFirst_mem (f : ℕ → ℝ) {m t : ℕ} (h : m ≤ t) :
    m ≤ argminFirst f m t ∧ argminFirst f m t ≤ t := by
  induction t with
  | zero => simp only [argminFirst]; omega
  | succ t ih =>
    by_cases hm : t + 1 ≤ m
    · rw [argminFirst_of_le f hm]; omega
    · have hmt : m ≤ t := by omega
      rw [argminFirst_succ f hmt]
      have := ih hmt
      split <;> omega

/-- characterisation 1: it is a minimiser on `[m, t]` -/
theorem argminFirst_le (f : ℕ → ℝ) {m t : ℕ} (h : m ≤ t) :
    ∀ j, m ≤ j → j ≤ t → f (argminFirst f m t) ≤ f j := by
  induction t with
  | zero =>
    intro j hj hj'
    have : j = m := by omega
    simp only [argminFirst, this, le_refl]
  | succ t ih =>
    intro j hj hj'
    by_cases hm : t + 1 ≤ m
    · have : j = m := by omega
      rw [argminFirst_of_le f hm, this]
    · have hmt : m ≤ t := by omega
      rw [argminFirst_succ f hmt]
      by_cases hjt : j = t + 1
      · subst hjt
        split
        · exact le_refl _
        · exact not_lt.mp ‹_›
      · have hj'' : j ≤ t := by omega
        have := ih hmt j hj hj''
        split
        · exact le_trans (le_of_lt ‹_›) this
        · exact this

/-- characterisation 2: it is the FIRST minimiser — every earlier index of `[m, t]` has a strictly larger value -/
theorem argminFirst_lt (f : ℕ → ℝ) {m t : ℕ} (h : m ≤ t) :
    ∀ j, m ≤ j → j < argminFirst f m t → f (argminFirst f m t) < f j := by
  induction t with
  | zero =>
    intro j hj hj'
    simp only [argminFirst] at hj'; omega
  | succ t ih =>
    intro j hj
    by_cases hm : t + 1 ≤ m
    · rw [argminFirst_of_le f hm]; intro hj'; omega
    · have hmt : m ≤ t := by omega
      rw [argminFirst_succ f hmt]
      split
      · intro hj'
        have hj'' : j ≤ t := by omega
        exact lt_of_lt_of_le ‹_› (argminFirst_le f hmt j hj hj'')
      · intro hj'
        exact ih hmt j hj hj'

/-- the two characterisations determine the index uniquely -/
theorem argminFirst_unique (f : ℕ → ℝ) {m t k : ℕ} (h : m ≤ t) (hk : m ≤ k ∧ k ≤ t)
    (hle : ∀ j, m ≤ j → j ≤ t → f k ≤ f j) (hlt : ∀ j, m ≤ j → j < k → f k < f j) :
    k = argminFirst f m t := by
  obtain ⟨h1, h2⟩ := argminFirst_mem f h
  rcases lt_trichotomy k (argminFirst f m t) with hlt' | heq | hgt
  · have := argminFirst_lt f h k hk.1 hlt'
    have := hle _ h1 h2
    linarith
  · exact heq
  · have := hlt _ h1 hgt
    have := argminFirst_le f h k hk.1 hk.2
    linarith

/-! ### The non-incremental DDM statistics -/

/- `pHat xs t` — the error rate after the first `t` values — is defined in `Lemmas/PrefixMean.lean`. -/
/-- binomial standard deviation of the error rate after `t` values -/
noncomputable def sHat (xs : List ℝ) (t : ℕ) : ℝ := Real.sqrt (pHat xs t * (1 - pHat xs t) / t)
/-- `p_t + s_t` -/
noncomputable def score (xs : List ℝ) (t : ℕ) : ℝ := pHat xs t + sHat xs t
/-- index of the recorded minimum after `t ≥ m` values: first minimiser of `score` on `[m, t]` -/
noncomputable def jStar (xs : List ℝ) (m t : ℕ) : ℕ := argminFirst (score xs) m t

/-- the model state after feeding `xs` (no reset) to a freshly constructed DDM -/
noncomputable def ddmAfter (c : DDM.Cfg ℝ) (xs : List ℝ) : DDM.State ℝ := xs.foldl (DDM.step c) DDM.init

/-- `ddmAfter` is the `Machine` run over the history consisting of the updates `xs` -/
theorem ddmAfter_eq_run (c : DDM.Cfg ℝ) (xs : List ℝ) :
    ddmAfter c xs = (DDM.machine c).run (xs.map Op.update) := by
  unfold ddmAfter Machine.run Machine.runFrom
  rw [List.foldl_map]
  rfl

/-- hence the radicand of `sHat` is non-negative and the square root is a genuine one -/
theorem sHat_sq (xs : List ℝ) (h : ∀ x ∈ xs, 0 ≤ x ∧ x ≤ 1) {t : ℕ} (ht : 1 ≤ t) :
    0 ≤ pHat xs t * (1 - pHat xs t) / t ∧ sHat xs t ^ 2 = pHat xs t * (1 - pHat xs t) / t := by
  obtain ⟨h0, h1⟩ := pHat_mem_unit xs h ht
  have htpos : (0 : ℝ) < t := by exact_mod_cast ht
  have hr : 0 ≤ pHat xs t * (1 - pHat xs t) / t :=
    div_nonneg (mul_nonneg h0 (by linarith)) htpos.le
  exact ⟨hr, by unfold sHat; exact Real.sq_sqrt hr⟩

/-! ### The invariant -/

/-- What the state after `t` updates looks like.  `mean_eq` is the division-free form of
`er.mean = pHat xs t` (so that it also covers `t = 0`). -/
structure DDMInv (c : DDM.Cfg ℝ) (xs : List ℝ) (t : ℕ) (s : DDM.State ℝ) : Prop where
  n_eq : s.n = t
  ern_eq : s.er.n = t
  mean_eq : s.er.mean * t = (xs.take t).sum
  min_eq : s.minPS =
    if c.minN ≤ t then some (pHat xs (jStar xs c.minN t), sHat xs (jStar xs c.minN t)) else none
  drift_eq : s.drift = decide (c.minN ≤ t ∧
    pHat xs (jStar xs c.minN t) + c.drift * sHat xs (jStar xs c.minN t) < score xs t)
  warning_eq : s.warning = decide (c.minN ≤ t ∧
    ¬ (pHat xs (jStar xs c.minN t) + c.drift * sHat xs (jStar xs c.minN t) < score xs t) ∧
    pHat xs (jStar xs c.minN t) + c.warn * sHat xs (jStar xs c.minN t) < score xs t)

theorem ddmInv_init (c : DDM.Cfg ℝ) (hm : 1 ≤ c.minN) (xs : List ℝ) : DDMInv c xs 0 DDM.init := by
  have h0 : ¬ c.minN ≤ 0 := by omega
  constructor <;> simp [DDM.init, Mean.init, h0]

theorem ddmInv_step (c : DDM.Cfg ℝ) (xs : List ℝ) (t : ℕ) (ht : t < xs.length)
    (s : DDM.State ℝ) (h : DDMInv c xs t s) : DDMInv c xs (t + 1) (DDM.step c s xs[t]) := by
  obtain ⟨hn, hern, hmean, hmin, -, -⟩ := h
  -- the updated mean is the arithmetic mean of the first `t+1` values
  obtain ⟨hern', hp, hmean'⟩ := mean_update_prefix xs t ht s.er hern hmean
  have heps : ddmStepEps s xs[t] = (score xs (t + 1), sHat xs (t + 1)) := by
    unfold ddmStepEps DDM.epsStd
    simp only [hn, RealNum.one_eq, RealNum.sqrt_eq, RealNum.ofNat_eq, hp, score]
    rfl
  obtain ⟨fn, fer, fmin, fdrift, fwarn⟩ := ddm_step_fields c s xs[t]
  rw [heps] at fdrift fwarn
  rw [hn] at fn fmin fdrift fwarn
  by_cases hmt : c.minN ≤ t + 1
  · -- past the warm-up: the recorded minimum is the first minimiser of `score` on `[minN, t+1]`
    have hmin' : ddmStepMin s xs[t] =
        some (pHat xs (jStar xs c.minN (t + 1)), sHat xs (jStar xs c.minN (t + 1))) := by
      unfold ddmStepMin
      rw [heps, hp, hmin]
      by_cases hmt' : c.minN ≤ t
      · rw [if_pos hmt', ddm_belowMin_some]
        have hJ : jStar xs c.minN (t + 1) = _ := argminFirst_succ (score xs) hmt'
        by_cases hlt : score xs (t + 1) < score xs (jStar xs c.minN t)
        · have hJ' : jStar xs c.minN (t + 1) = t + 1 := by rw [hJ]; exact if_pos hlt
          have hlt' : score xs (t + 1) <
            pHat xs (jStar xs c.minN t) + sHat xs (jStar xs c.minN t) := hlt
          rw [hJ', decide_eq_true hlt', if_pos rfl]
        · have hJ' : jStar xs c.minN (t + 1) = jStar xs c.minN t := by rw [hJ]; exact if_neg hlt
          have hlt' : ¬ score xs (t + 1) <
            pHat xs (jStar xs c.minN t) + sHat xs (jStar xs c.minN t) := hlt
          rw [hJ', decide_eq_false hlt', if_neg (by simp)]
      · have hJ' : jStar xs c.minN (t + 1) = t + 1 := by
          have : t + 1 ≤ c.minN := by omega
          unfold jStar; rw [argminFirst_of_le _ this]; omega
        rw [if_neg hmt', ddm_belowMin_none, if_pos rfl, hJ']
    rw [hmin'] at fmin fdrift fwarn
    rw [ddm_exceeds_some] at fdrift
    rw [ddm_exceeds_some, ddm_exceeds_some] at fwarn
    refine ⟨fn, by rw [fer]; exact hern', by rw [fer]; exact hmean', ?_, ?_, ?_⟩
    · rw [fmin, if_pos hmt, if_pos hmt]
    · rw [fdrift]; simp [hmt]
    · rw [fwarn]; simp [hmt, -not_lt]
  · -- still warming up
    have hmt' : ¬ c.minN ≤ t := by omega
    refine ⟨fn, by rw [fer]; exact hern', by rw [fer]; exact hmean', ?_, ?_, ?_⟩
    · rw [fmin, if_neg hmt, if_neg hmt, hmin, if_neg hmt']
    · rw [fdrift]; simp [hmt]
    · rw [fwarn]; simp [hmt]

/-- the invariant holds after every prefix of the stream -/
theorem ddmInv_take (c : DDM.Cfg ℝ) (hm : 1 ≤ c.minN) (xs : List ℝ) :
    ∀ t, t ≤ xs.length → DDMInv c xs t (ddmAfter c (xs.take t)) := by
  intro t
  induction t with
  | zero => intro _; simpa [ddmAfter] using ddmInv_init c hm xs
  | succ t ih =>
    intro ht
    have ht' : t < xs.length := by omega
    have := ddmInv_step c xs t ht' _ (ih (by omega))
    rw [List.take_succ_eq_append_getElem ht']
    unfold ddmAfter at this ⊢
    rw [List.foldl_append]
    exact this

/-! ### Main theorems -/

/-- **First-minimiser characterisation of the recorded minimum index** `j* = jStar xs m t` (`m ≤ t`):
it lies in `[m, t]`, minimises `score xs` there, every earlier index of `[m, t]` has a strictly larger
score, and it is the only index with these properties. -/
theorem jStar_spec (xs : List ℝ) {m t : ℕ} (h : m ≤ t) :
    (m ≤ jStar xs m t ∧ jStar xs m t ≤ t) ∧
    (∀ j, m ≤ j → j ≤ t → score xs (jStar xs m t) ≤ score xs j) ∧
    (∀ j, m ≤ j → j < jStar xs m t → score xs (jStar xs m t) < score xs j) ∧
    (∀ k, m ≤ k → k ≤ t → (∀ j, m ≤ j → j ≤ t → score xs k ≤ score xs j) →
      (∀ j, m ≤ j → j < k → score xs k < score xs j) → k = jStar xs m t) :=
  ⟨argminFirst_mem _ h, argminFirst_le _ h, argminFirst_lt _ h,
    fun _ h1 h2 h3 h4 => argminFirst_unique _ h ⟨h1, h2⟩ h3 h4⟩

/-- **DDM follows its published rule — algebraic core** (no assumption on the values of the stream).
After the first `t ≤ xs.length` values have been fed to a fresh detector (`1 ≤ minN`):
* the counter is `t` and (for `1 ≤ t`; this hypothesis excludes the junk value `0/0` of `pHat xs 0`) the
  incremental error rate is the arithmetic mean `pHat xs t`;
* the recorded minimum is unset during the warm-up `t < minN` and afterwards is `(p_{j*}, s_{j*})` with
  `j* = jStar xs minN t` the first minimiser of `p + s` on `[minN, t]` (see `jStar_spec`);
* `drift ⇔ minN ≤ t ∧ p_t + s_t > p_{j*} + c.drift * s_{j*}` and
  `warning ⇔ minN ≤ t ∧ ¬drift ∧ p_t + s_t > p_{j*} + c.warn * s_{j*}`.

Every index at which `pHat`/`sHat` is evaluated is `≥ minN ≥ 1` (or is `t ≥ 1`), so no `x / 0` is involved.
Without the 0/1 hypothesis the radicand of `sHat` may be negative, in which case `Real.sqrt` is the junk
value `0` (Python: `nan`): `ddm_spec` below adds that hypothesis and the fact that the roots are genuine. -/
theorem ddm_spec_core (c : DDM.Cfg ℝ) (hm : 1 ≤ c.minN) (xs : List ℝ) (t : ℕ) (ht : t ≤ xs.length) :
    (ddmAfter c (xs.take t)).n = t ∧ (ddmAfter c (xs.take t)).er.n = t ∧
    (1 ≤ t → (ddmAfter c (xs.take t)).er.mean = pHat xs t) ∧
    (ddmAfter c (xs.take t)).minPS =
      (if c.minN ≤ t then some (pHat xs (jStar xs c.minN t), sHat xs (jStar xs c.minN t)) else none) ∧
    ((ddmAfter c (xs.take t)).drift = true ↔ c.minN ≤ t ∧
      pHat xs (jStar xs c.minN t) + c.drift * sHat xs (jStar xs c.minN t) < pHat xs t + sHat xs t) ∧
    ((ddmAfter c (xs.take t)).warning = true ↔ c.minN ≤ t ∧
      ¬ (pHat xs (jStar xs c.minN t) + c.drift * sHat xs (jStar xs c.minN t) < pHat xs t + sHat xs t) ∧
      pHat xs (jStar xs c.minN t) + c.warn * sHat xs (jStar xs c.minN t) < pHat xs t + sHat xs t) := by
  obtain ⟨h1, h2, h3, h4, h5, h6⟩ := ddmInv_take c hm xs t ht
  refine ⟨h1, h2, ?_, h4, ?_, ?_⟩
  · exact fun ht1 => mean_eq_pHat xs ht1 h3
  · rw [h5]; exact decide_eq_true_iff
  · rw [h6]; exact decide_eq_true_iff

/-- **C03a, DDM.**  For a 0/1 stream `xs`, a configuration with `1 ≤ minN`, and `1 ≤ t ≤ xs.length`, the
model state after the first `t` values is the one prescribed by the published (non-incremental) rule:
`er.mean = p_t`; during the warm-up (`t < minN`) no minimum is recorded and both flags are off; from
`t = minN` on, the recorded minimum is `(p_{j*}, s_{j*})` for the FIRST minimiser `j*` of `p_j + s_j` on
`[minN, t]` (`jStar_spec`), `drift_t ⇔ p_t + s_t > p_{j*} + c.drift * s_{j*}` and
`warning_t ⇔ ¬drift_t ∧ p_t + s_t > p_{j*} + c.warn * s_{j*}`.

Hypotheses: `1 ≤ minN` (with `minN = 0` the first update would already record a minimum while the scan
`[0, t]` of the specification would start at the meaningless index 0); `1 ≤ t` (excludes `0/0` in `p_0`);
`t ≤ xs.length` (the first `t` values exist).  The 0/1 hypothesis is used ONLY for the two
well-definedness conjuncts: every `p_j` is a probability and hence every radicand `p_j (1 - p_j) / j` is
non-negative, so that each `s_j` is a genuine square root (`s_j ^ 2 = p_j (1 - p_j) / j`) rather than
the junk value `Real.sqrt (negative) = 0`; the remaining conjuncts are `ddm_spec_core`, which holds for
every real stream. -/
theorem ddm_spec (c : DDM.Cfg ℝ) (hm : 1 ≤ c.minN) (xs : List ℝ) (h01 : ∀ x ∈ xs, x = 0 ∨ x = 1)
    (t : ℕ) (ht1 : 1 ≤ t) (ht : t ≤ xs.length) :
    (ddmAfter c (xs.take t)).n = t ∧
    (ddmAfter c (xs.take t)).er.mean = pHat xs t ∧
    (∀ j, 1 ≤ j → 0 ≤ pHat xs j ∧ pHat xs j ≤ 1) ∧
    (∀ j, 1 ≤ j → sHat xs j ^ 2 = pHat xs j * (1 - pHat xs j) / j) ∧
    (t < c.minN → (ddmAfter c (xs.take t)).minPS = none ∧
      (ddmAfter c (xs.take t)).drift = false ∧ (ddmAfter c (xs.take t)).warning = false) ∧
    (c.minN ≤ t →
      (ddmAfter c (xs.take t)).minPS = some (pHat xs (jStar xs c.minN t), sHat xs (jStar xs c.minN t)) ∧
      ((ddmAfter c (xs.take t)).drift = true ↔
        pHat xs (jStar xs c.minN t) + c.drift * sHat xs (jStar xs c.minN t) < pHat xs t + sHat xs t) ∧
      ((ddmAfter c (xs.take t)).warning = true ↔
        ¬ (pHat xs (jStar xs c.minN t) + c.drift * sHat xs (jStar xs c.minN t) < pHat xs t + sHat xs t) ∧
        pHat xs (jStar xs c.minN t) + c.warn * sHat xs (jStar xs c.minN t) < pHat xs t + sHat xs t)) := by
  have hunit : ∀ x ∈ xs, 0 ≤ x ∧ x ≤ 1 := by
    intro x hx
    rcases h01 x hx with h | h <;> subst h <;> norm_num
  obtain ⟨h1, -, h3, h4, h5, h6⟩ := ddm_spec_core c hm xs t ht
  refine ⟨h1, h3 ht1, fun j hj => pHat_mem_unit xs hunit hj, fun j hj => (sHat_sq xs hunit hj).2, ?_, ?_⟩
  · intro hlt
    have hnot : ¬ c.minN ≤ t := by omega
    refine ⟨by rw [h4, if_neg hnot], ?_, ?_⟩
    · rw [← Bool.not_eq_true, h5]; tauto
    · rw [← Bool.not_eq_true, h6]; tauto
  · intro hle
    refine ⟨by rw [h4, if_pos hle], ?_, ?_⟩
    · rw [h5]; tauto
    · rw [h6]; tauto

/-- before any update: nothing recorded, no flag -/
theorem ddm_spec_zero (c : DDM.Cfg ℝ) :
    (ddmAfter c []).n = 0 ∧ (ddmAfter c []).minPS = none ∧
    (ddmAfter c []).drift = false ∧ (ddmAfter c []).warning = false := by
  simp [ddmAfter, DDM.init]

/-- `minN = 0` is covered through `minN = 1` (same states on every stream) -/
theorem ddmAfter_minN_zero (w d : ℝ) (xs : List ℝ) : ddmAfter ⟨w, d, 0⟩ xs = ddmAfter ⟨w, d, 1⟩ xs := by
  unfold ddmAfter; rw [ddm_step_minN_zero]

/-- Histories with resets: after `pre ++ [reset]` followed by the updates `xs` the state is `ddmAfter c xs`,
so `ddm_spec` describes every reachable state in terms of the values seen since the last reset. -/
theorem ddm_run_after_reset (c : DDM.Cfg ℝ) (pre : List (Op ℝ)) (xs : List ℝ) :
    (DDM.machine c).run (pre ++ [Op.reset] ++ xs.map Op.update) = ddmAfter c xs := by
  rw [Machine.run_after_reset _ (fun _ _ => rfl), ← ddmAfter_eq_run]

/-! ### Non-vacuity -/

/-- the hypotheses of `ddm_spec` are satisfiable by a non-trivial instance (past the warm-up) -/
example : ∃ (c : DDM.Cfg ℝ) (xs : List ℝ) (t : ℕ),
    1 ≤ c.minN ∧ (∀ x ∈ xs, x = 0 ∨ x = 1) ∧ 1 ≤ t ∧ t ≤ xs.length ∧ c.minN ≤ t :=
  ⟨⟨2, 3, 1⟩, [0, 0, 1], 3, by norm_num, by simp, by norm_num, by simp, by norm_num⟩

/-- A concrete run through `ddm_spec`: on the stream `0,0,1` with `minN = 1` the first minimiser is
`j* = 1` (ties keep the earliest index), `p_1 = s_1 = 0`, and the third value raises `drift`
(`p_3 + s_3 = 1/3 + √(2/27) > 0 = p_1 + 3 s_1`) — whatever the drift level. -/
example : jStar [0, 0, 1] 1 3 = 1 ∧ (ddmAfter ⟨2, 3, 1⟩ ([0, 0, 1].take 3)).drift = true := by
  have hp1 : pHat [0, 0, 1] 1 = 0 := by simp [pHat]
  have hp2 : pHat [0, 0, 1] 2 = 0 := by simp [pHat]
  have hp3 : pHat [0, 0, 1] 3 = 1 / 3 := by simp [pHat]
  have hs1 : score [0, 0, 1] 1 = 0 := by simp [score, sHat, hp1]
  have hs2 : score [0, 0, 1] 2 = 0 := by simp [score, sHat, hp2]
  have hs3 : 0 < score [0, 0, 1] 3 := by
    have : 0 ≤ sHat [0, 0, 1] 3 := Real.sqrt_nonneg _
    rw [score, hp3]; linarith
  have hJ1 : jStar [0, 0, 1] 1 1 = 1 := argminFirst_of_le _ (le_refl 1)
  have hJ2 : jStar [0, 0, 1] 1 2 = 1 := by
    unfold jStar at hJ1 ⊢
    rw [argminFirst_succ _ (le_refl 1), hJ1, hs1, hs2]; simp
  have hJ3 : jStar [0, 0, 1] 1 3 = 1 := by
    unfold jStar at hJ2 ⊢
    rw [argminFirst_succ _ (by norm_num : 1 ≤ 2), hJ2, hs1, if_neg (not_lt.mpr hs3.le)]
  refine ⟨hJ3, ?_⟩
  have h := (ddm_spec ⟨2, 3, 1⟩ (by norm_num) [0, 0, 1] (by simp) 3 (by norm_num) (by simp)).2.2.2.2.2
    (by norm_num)
  rw [h.2.1, hJ3]
  have hs1' : sHat [0, 0, 1] 1 = 0 := by simp [sHat, hp1]
  rw [hp1, hs1']
  simpa [score] using hs3

#print axioms jStar_spec
#print axioms ddm_spec_core
#print axioms ddm_spec
#print axioms ddm_step_fields
#print axioms ddm_step_minN_zero
#print axioms argminFirst_unique
#print axioms sHat_sq
#print axioms ddmAfter_minN_zero
#print axioms ddm_run_after_reset
#print axioms ddm_spec_zero

end Frouros.C03
