/-
  C16 — independence of detector instances (`FrourosProofs/Machine.lean`).

  A family of machines `M i : Machine (S i) (V i)` indexed by `ι` (decidable equality; the state and
  value types may differ from instance to instance) is run as ONE product machine whose state is the
  dependent product `∀ i, S i` and whose events are addressed operations `⟨i, op⟩`: an event changes
  component `i` only, through `M i`.  `interleave*`: for every schedule, the `i`-th component of the
  product run equals the run of `M i` alone on the sub-sequence addressed to `i`.

  The second part (`observed`) is the frame lemma for a *cascade*: an observer (history callback) that
  reads the detector state after each step but is never read by the detector.

  No assumption on the machines: arbitrary types, arbitrary `step`/`reset`.
-/
import FrourosProofs.Machine
namespace Frouros.C16
open Frouros

section Product
variable {ι : Type} [DecidableEq ι] {S V : ι → Type}

/-- pointwise update of a dependent function (`Function.update`, restated to stay import-free) -/
def upd (s : ∀ i, S i) (i : ι) (x : S i) : ∀ j, S j := fun j => if h : i = j then h ▸ x else s j

@[simp] theorem upd_same (s : ∀ i, S i) (i : ι) (x : S i) : upd s i x i = x := by simp [upd]
@[simp] theorem upd_ne (s : ∀ i, S i) {i j : ι} (h : i ≠ j) (x : S i) : upd s i x j = s j := by simp [upd, h]

/-- An event of the product: an operation (update with a value, or reset) addressed to instance `i`. -/
abbrev Event (V : ι → Type) := Σ i, Op (V i)

/-- The product machine.  `step` applies the addressed operation to component `i` and leaves all the
other components untouched; the machine-level `reset` resets every component. -/
def prod (M : ∀ i, Machine (S i) (V i)) : Machine (∀ i, S i) (Event V) where
  init := fun i => (M i).init
  step := fun s e => upd s e.1 ((M e.1).apply (s e.1) e.2)
  reset := fun s i => (M i).reset (s i)

variable (M : ∀ i, Machine (S i) (V i))

/-- **frame lemma**: an event addressed to `j ≠ i` does not change component `i`. -/
theorem frame (s : ∀ i, S i) {i j : ι} (h : j ≠ i) (o : Op (V j)) : (prod M).step s ⟨j, o⟩ i = s i := by
  simp [prod, h]

/-- an event addressed to `i` acts on component `i` as `M i` does (and reads nothing else) -/
theorem own (s : ∀ i, S i) (i : ι) (o : Op (V i)) : (prod M).step s ⟨i, o⟩ i = (M i).apply (s i) o := by
  simp [prod]

/-- what instance `i` sees of a product operation -/
def projOp (i : ι) : Op (Event V) → Option (Op (V i))
  | .update ⟨j, o⟩ => if h : j = i then some (h ▸ o) else none
  | .reset => some .reset

/-- the sub-history of instance `i` -/
def proj (i : ι) (ops : List (Op (Event V))) : List (Op (V i)) := ops.filterMap (projOp i)

/-- **interleave**, general form (from any product state; addressed updates, addressed resets and
global resets in any order). -/
theorem interleave_runFrom (s : ∀ i, S i) (ops : List (Op (Event V))) (i : ι) :
    (prod M).runFrom s ops i = (M i).runFrom (s i) (proj i ops) := by
  induction ops generalizing s with
  | nil => rfl
  | cons op ops ih =>
    have hstep : (prod M).runFrom s (op :: ops) = (prod M).runFrom ((prod M).apply s op) ops := rfl
    rw [hstep, ih]
    cases op with
    | reset =>
      have : proj i (Op.reset :: ops) = Op.reset :: proj (V := V) i ops := by simp [proj, projOp]
      rw [this]; rfl
    | update e =>
      obtain ⟨j, o⟩ := e
      by_cases h : j = i
      · subst h
        have : proj j (Op.update ⟨j, o⟩ :: ops) = o :: proj (V := V) j ops := by simp [proj, projOp]
        rw [this]
        show (M j).runFrom ((prod M).step s ⟨j, o⟩ j) _ = _
        rw [own]; rfl
      · have : proj i (Op.update ⟨j, o⟩ :: ops) = proj (V := V) i ops := by simp [proj, projOp, h]
        rw [this]
        show (M i).runFrom ((prod M).step s ⟨j, o⟩ i) _ = _
        rw [frame M s h]

/-- **interleave_full**: from the initial states. -/
theorem interleave_full (ops : List (Op (Event V))) (i : ι) :
    (prod M).run ops i = (M i).run (proj i ops) :=
  interleave_runFrom M _ ops i

/-- the values addressed to `i` in a schedule of addressed values -/
def sub (i : ι) (σ : List (Σ j, V j)) : List (V i) :=
  σ.filterMap (fun e => if h : e.1 = i then some (h ▸ e.2) else none)

/-- the operations addressed to `i` in a schedule of addressed operations -/
def subOps (i : ι) (σ : List (Event V)) : List (Op (V i)) :=
  σ.filterMap (fun e => if h : e.1 = i then some (h ▸ e.2) else none)

theorem proj_updates (i : ι) (σ : List (Σ j, V j)) :
    proj i (σ.map (fun e => Op.update (⟨e.1, Op.update e.2⟩ : Event V))) = (sub i σ).map Op.update := by
  induction σ with
  | nil => rfl
  | cons e σ ih =>
    obtain ⟨j, v⟩ := e
    simp only [proj] at ih
    by_cases h : j = i
    · subst h; simp [proj, projOp, sub, ih]
    · simp [proj, projOp, sub, h, ih]

theorem proj_ops (i : ι) (σ : List (Event V)) : proj i (σ.map Op.update) = subOps i σ := by
  induction σ with
  | nil => rfl
  | cons e σ ih =>
    obtain ⟨j, o⟩ := e
    simp only [proj] at ih
    by_cases h : j = i
    · subst h; simp [proj, projOp, subOps, ih]
    · simp [proj, projOp, subOps, h, ih]

/-- **interleave** (as stated in the property): for any schedule `σ` of (instance, value) pairs,
running the product and projecting on `i` equals running `M i` alone on the values addressed to `i`. -/
theorem interleave (σ : List (Σ j, V j)) (i : ι) :
    (prod M).run (σ.map (fun e => Op.update (⟨e.1, Op.update e.2⟩ : Event V))) i
      = (M i).run ((sub i σ).map Op.update) := by
  rw [interleave_full, proj_updates]

/-- **interleave_reset**: the same with per-instance reset events in the schedule. -/
theorem interleave_reset (σ : List (Event V)) (i : ι) :
    (prod M).run (σ.map Op.update) i = (M i).run (subOps i σ) := by
  rw [interleave_full, proj_ops]

/-- Independence: two product histories that agree on what is addressed to `i` leave instance `i` in the
same state, whatever they do to the other instances. -/
theorem independent (ops ops' : List (Op (Event V))) (i : ι) (h : proj i ops = proj (V := V) i ops') :
    (prod M).run ops i = (prod M).run ops' i := by
  rw [interleave_full, interleave_full, h]

/-- every component of a reachable product state is reachable in its own machine (so all per-detector
invariants transfer to every instance of an interleaved run) -/
theorem reachable_component (ops : List (Op (Event V))) (i : ι) : (M i).Reachable ((prod M).run ops i) := by
  rw [interleave_full]; exact (M i).reachable_run _

end Product

/-! ### Non-vacuity: two instances with different state and value types -/
section Example
/-- instance `true`: a counter of `Unit` ticks; instance `false`: an accumulator of naturals -/
def exS : Bool → Type | true => Nat | false => List Nat
def exV : Bool → Type | true => Unit | false => Nat
def exM : ∀ b, Machine (exS b) (exV b)
  | true => ⟨(0 : Nat), fun (s : Nat) _ => s + 1, fun _ => (0 : Nat)⟩
  | false => ⟨([] : List Nat), fun (s : List Nat) (v : Nat) => s ++ [v], fun _ => ([] : List Nat)⟩

def exSchedule : List (Event exV) :=
  [⟨false, .update (7 : Nat)⟩, ⟨true, .update ()⟩, ⟨false, .update (8 : Nat)⟩, ⟨true, .reset⟩, ⟨true, .update ()⟩,
   ⟨false, .update (9 : Nat)⟩]

example : (show List Nat from (prod exM).run (exSchedule.map Op.update) false) = [7, 8, 9] := rfl
example : (show Nat from (prod exM).run (exSchedule.map Op.update) true) = 1 := rfl
example : subOps (V := exV) true exSchedule = [.update (), .reset, .update ()] := rfl
end Example

/-! ### Cascade with an observer (history callback) -/
section Observer
variable {S V H : Type}

/-- A machine together with an observer that, after each step, folds the *new* machine state into its
own state `H`.  The observer state is never an argument of `M.step` / `M.reset`. -/
def observed (M : Machine S V) (h0 : H) (obs : H → S → H) (obsReset : H → H) : Machine (S × H) V where
  init := (M.init, h0)
  step := fun p v => (M.step p.1 v, obs p.2 (M.step p.1 v))
  reset := fun p => (M.reset p.1, obsReset p.2)

variable (M : Machine S V) (h0 : H) (obs : H → S → H) (obsReset : H → H)

/-- **observer frame lemma**: projecting the cascade on the machine gives the machine's own run,
for every history and every starting observer state. -/
theorem observed_runFrom_fst (s : S) (h : H) (ops : List (Op V)) :
    ((observed M h0 obs obsReset).runFrom (s, h) ops).1 = M.runFrom s ops := by
  induction ops generalizing s h with
  | nil => rfl
  | cons op ops ih =>
    cases op with
    | update v => exact ih (M.step s v) (obs h (M.step s v))
    | reset => exact ih (M.reset s) (obsReset h)

theorem observed_fst (ops : List (Op V)) : ((observed M h0 obs obsReset).run ops).1 = M.run ops :=
  observed_runFrom_fst M h0 obs obsReset _ _ ops

/-- the successive states of `M` after each of the updates `vs`, started in `s` -/
def states (s : S) : List V → List S
  | [] => []
  | v :: vs => M.step s v :: states (M.step s v) vs

theorem states_length (s : S) (vs : List V) : (states M s vs).length = vs.length := by
  induction vs generalizing s with
  | nil => rfl
  | cons v vs ih => simp [states, ih]

/-- what the observer holds after a block of updates: the fold of `obs` over the successive states -/
theorem observed_runFrom_snd (s : S) (h : H) (vs : List V) :
    ((observed M h0 obs obsReset).runFrom (s, h) (vs.map Op.update)).2 = (states M s vs).foldl obs h := by
  induction vs generalizing s h with
  | nil => rfl
  | cons v vs ih => exact ih (M.step s v) (obs h (M.step s v))

end Observer
end Frouros.C16

#print axioms Frouros.C16.frame
#print axioms Frouros.C16.interleave_runFrom
#print axioms Frouros.C16.interleave_full
#print axioms Frouros.C16.interleave
#print axioms Frouros.C16.interleave_reset
#print axioms Frouros.C16.independent
#print axioms Frouros.C16.reachable_component
#print axioms Frouros.C16.observed_fst
#print axioms Frouros.C16.observed_runFrom_snd
