/-
  C13 (part c) — "the null statistics are evaluated with the detector's OWN parameters": the keyword dictionaries.
  Model: `FrourosModel/Kwargs.lean` (new), `FrourosModel/Perm.lean`, `FrourosModel/Hist.lean` (unchanged).

  1. Python dict semantics (association lists):
       `get?_put`, `get?_merge`, `get?_lit`            later key wins
       `keys_put_nodup`, `lit_nodup`                   a dict never has a repeated key
       `DictEq` (agreement on every key; order irrelevant), `lit_perm_of_nodup`
  2. own parameters (every kind, every `num_bins`, `chunk_size`, kernel, extra `**kwargs`):
       `own_params`            repaired tree, the eight kinds other than MMD: `compare` calls the distance with keywords
                               that agree on EVERY key with the ones the callback passes
       `own_params_mmd`        MMD: same on every key except `expected_k_xx` (the precomputed reference term that
                               only `compare` passes; `C09.mmd_precomputed_eq` shows it does not change the value)
       `own_params_any_stat`   hence, for any statistic that only looks keywords up, null statistic = compare's distance function
       `callback_num_bins`     the callback's `num_bins` is the constructor's, for the six kinds that have one
  3. the pre-repair merge order `{**statistical_kwargs, "num_bins": 10}`:
       `pre_repair_num_bins`         the four binned kinds always permute with `num_bins = 10`
       `pre_repair_overwrite`        … so for `num_bins ≠ 10` the callback and `compare` DISAGREE (negative theorem)
       `pre_repair_other_kinds`      the other five kinds are untouched by the repair
       `pre_repair_witness`          PSI(num_bins=5)
  4. the four binned detectors concretely (`Hist.psi/hellinger/bhattacharyya/hi`, any carrier):
       `compare_binned`, `callbackNull_binned`, `callbackNull_binned_pre_repair`, `binned_value_witness` (ℝ)
  5. a residual defect of the repaired tree: `stale_after_setNumBins_witness`, `stale_after_setNumBins`
  6. p-values (ℝ): `pValue_mem` (end-to-end `(0,1]`), `pConservative_mono`, `pEstimate_mono`, `binomCdf_mono_b`,
       `pExact_mono`, `pValue_mono_extreme_conservative`
-/
import Mathlib.Tactic
import FrourosProofs.RealNum
import FrourosProofs.Props.C12
import FrourosProofs.Props.C13
import FrourosProofs.Props.C13b
import FrourosModel.Kwargs

namespace Frouros.C13
open Frouros Frouros.Kwargs Frouros.Tests2

/-! ## 1. dictionaries -/
section Dicts

theorem get?_nil (k : String) : get? [] k = none := rfl

theorem get?_cons (a : String) (b : Val) (d : Dict) (k : String) :
    get? ((a, b) :: d) k = if a = k then some b else get? d k := by
  unfold get?
  by_cases h : a = k
  · simp [List.find?, h]
  · have : (a == k) = false := by simpa using h
    simp only [List.find?, this, if_neg h]

theorem get?_append (l r : Dict) (k : String) : get? (l ++ r) k = (get? l k).or (get? r k) := by
  induction l with
  | nil => simp [get?_nil]
  | cons kv l ih =>
    obtain ⟨a, b⟩ := kv
    rw [List.cons_append, get?_cons, get?_cons]
    split
    · rfl
    · exact ih

/-- `d[k] = v` followed by a lookup -/
theorem get?_put (d : Dict) (k : String) (v : Val) (k' : String) :
    get? (put d k v) k' = if k = k' then some v else get? d k' := by
  induction d with
  | nil => simp [put, get?_cons, get?_nil]
  | cons kv d ih =>
    obtain ⟨a, b⟩ := kv
    unfold put
    by_cases hak : a = k
    · subst hak
      simp only [beq_self_eq_true, if_true, get?_cons]
      split <;> rfl
    · have : (a == k) = false := by simpa using hak
      simp only [this, Bool.false_eq_true, if_false, get?_cons, ih]
      by_cases hak' : a = k'
      · subst hak'
        simp [Ne.symm hak]
      · simp [hak']

/-- the value of a key in `{**d, **e}`: the LAST item of `e` with that key, otherwise the one of `d` -/
theorem get?_merge (d e : Dict) (k : String) : get? (merge d e) k = (get? e.reverse k).or (get? d k) := by
  induction e generalizing d with
  | nil => simp [merge, get?_nil]
  | cons kv e ih =>
    obtain ⟨a, b⟩ := kv
    have : merge d ((a, b) :: e) = merge (put d a b) e := rfl
    rw [this, ih, List.reverse_cons, get?_append, get?_put, get?_cons, get?_nil]
    cases get? e.reverse k <;> by_cases h : a = k <;> simp [h]

/-- the value of a key in a dict display: the last item with that key -/
theorem get?_lit (items : List (String × Val)) (k : String) : get? (lit items) k = get? items.reverse k := by
  unfold lit
  rw [get?_merge, get?_nil]
  cases get? items.reverse k <;> rfl

theorem get?_eq_none_iff (d : Dict) (k : String) : get? d k = none ↔ k ∉ keys d := by
  induction d with
  | nil => simp [get?_nil, keys]
  | cons kv d ih =>
    obtain ⟨a, b⟩ := kv
    rw [get?_cons]
    by_cases h : a = k
    · simp [h, keys]
    · simp only [h, if_false, ih, keys, List.map_cons, List.mem_cons, not_or]
      exact ⟨fun h' => ⟨fun e => h e.symm, h'⟩, fun h' => h'.2⟩

theorem keys_put (d : Dict) (k : String) (v : Val) :
    keys (put d k v) = if k ∈ keys d then keys d else keys d ++ [k] := by
  induction d with
  | nil => simp [put, keys]
  | cons kv d ih =>
    obtain ⟨a, b⟩ := kv
    unfold put
    by_cases hak : a = k
    · subst hak; simp [keys]
    · have : (a == k) = false := by simpa using hak
      simp only [this, Bool.false_eq_true, if_false]
      have ih' := ih
      simp only [keys] at ih' ⊢
      rw [List.map_cons, ih']
      by_cases hk : k ∈ List.map (·.1) d
      · simp [hk]
      · simp [hk, Ne.symm hak]

theorem keys_put_nodup (d : Dict) (k : String) (v : Val) (h : (keys d).Nodup) : (keys (put d k v)).Nodup := by
  rw [keys_put]
  split
  · exact h
  · rename_i hk
    exact List.Nodup.append h (List.nodup_singleton k) (by simpa using hk)

theorem merge_nodup (d e : Dict) (h : (keys d).Nodup) : (keys (merge d e)).Nodup := by
  induction e generalizing d with
  | nil => exact h
  | cons kv e ih => exact ih _ (keys_put_nodup d kv.1 kv.2 h)

/-- a dict display never has a repeated key -/
theorem lit_nodup (items : List (String × Val)) : (keys (lit items)).Nodup :=
  merge_nodup [] items List.nodup_nil

theorem mem_keys_lit (items : List (String × Val)) (k : String) : k ∈ keys (lit items) ↔ k ∈ keys items := by
  have h1 := get?_eq_none_iff (lit items) k
  have h2 := get?_eq_none_iff items.reverse k
  rw [get?_lit] at h1
  have : k ∈ keys items.reverse ↔ k ∈ keys items := by simp [keys]
  rw [← this]
  constructor
  · intro h; by_contra h'; exact (h1.mp (h2.mpr h')) h
  · intro h; by_contra h'; exact (h2.mp (h1.mpr h')) h

/-- two dictionaries are interchangeable as keyword arguments: they agree on every key (order is irrelevant) -/
def DictEq (d e : Dict) : Prop := ∀ k, get? d k = get? e k

theorem DictEq.refl (d : Dict) : DictEq d d := fun _ => rfl
theorem DictEq.symm {d e : Dict} (h : DictEq d e) : DictEq e d := fun k => (h k).symm
theorem DictEq.trans {d e f : Dict} (h : DictEq d e) (h' : DictEq e f) : DictEq d f := fun k => (h k).trans (h' k)

/-- a list with distinct keys is its own dict display, up to `DictEq` -/
theorem lit_of_nodup (items : List (String × Val)) (h : (keys items).Nodup) : DictEq (lit items) items := by
  intro k
  rw [get?_lit]
  induction items with
  | nil => rfl
  | cons kv items ih =>
    obtain ⟨a, b⟩ := kv
    simp only [keys, List.map_cons, List.nodup_cons] at h
    rw [List.reverse_cons, get?_append, get?_cons, get?_cons, get?_nil, ih h.2]
    by_cases hak : a = k
    · subst hak
      have : get? items a = none := (get?_eq_none_iff items a).mpr h.1
      simp [this]
    · simp only [hak, if_false]
      cases get? items k <;> rfl

example : lit [("a", .int 1), ("b", .int 2), ("a", .int 3)] = [("a", .int 3), ("b", .int 2)] := by decide
example : get? (lit [("a", .int 1), ("b", .int 2), ("a", .int 3)]) "a" = some (.int 3) := by decide

end Dicts

/-! ## 2. the callback passes the parameters `compare` uses (repaired tree) -/
section OwnParams

/-- a constructor call that Python can produce: an explicit parameter name is never bound into `**kwargs`
(`JS(num_bins=4, **{"num_bins": 5})` is a `TypeError` before `__init__` runs) -/
def WellFormed (c : Cfg) : Prop := "num_bins" ∉ keys c.extra

theorem get?_reverse_none {d : Dict} {k : String} (h : k ∉ keys d) : get? d.reverse k = none := by
  rw [get?_eq_none_iff]; simpa [keys] using h

theorem pyCall_nil_left (kw : Dict) : pyCall ([] : Dict) kw = .call kw := by
  simp [pyCall]

theorem pyCall_nil_right (ex : Dict) : pyCall ex ([] : Dict) = .call ex := by
  simp [pyCall]

/-- **C13.1 (`own_params`)** — repaired tree, every kind except MMD, every `num_bins`, every extra `**kwargs`:
`compare` reaches the static distance function through a call that succeeds and whose keyword arguments agree ON
EVERY KEY with the dictionary the permutation callback passes to the same function.  (`WellFormed` is a fact about
Python call syntax, not a restriction; `e`, `ck` are `_expected_k_xx` and compare-time kwargs, unused by these kinds.) -/
theorem own_params (c : Cfg) (hwf : WellFormed c) (hk : c.kind ≠ .mmd) (e : Val) (ck : Dict) :
    ∃ kws, compareCall (construct true c) e ck = .call kws ∧ DictEq kws (callbackKwargs (construct true c)) := by
  obtain ⟨kind, nb, kernel, cs, extra⟩ := c
  have hx : "num_bins" ∉ keys (lit extra) := fun h => hwf ((mem_keys_lit extra _).mp h)
  have hcall : pyCall [("num_bins", Val.int nb)] (lit extra) = .call ([("num_bins", Val.int nb)] ++ lit extra) :=
    C12.pyCall_ok _ _ (by intro k hk; simp only [C12.keys, List.map_cons, List.map_nil, List.mem_singleton] at hk; subst hk; exact hx)
  have hnone : get? extra.reverse "num_bins" = none := get?_reverse_none hwf
  cases kind
  case mmd => exact absurd rfl hk
  case psi | bhattacharyya | hiNormalizedComplement =>
    refine ⟨[("num_bins", .int nb)], pyCall_nil_right _, fun k => ?_⟩
    simp only [construct, callbackKwargs, Kind.binned, if_true, binsInit, subclassKwargs]
    rfl
  case hellinger =>
    refine ⟨[("num_bins", .int nb), ("sqrt_div", sqrt2)], pyCall_nil_right _, fun k => ?_⟩
    simp only [construct, callbackKwargs, Kind.binned, if_true, binsInit, subclassKwargs]
    rfl
  case js =>
    refine ⟨_, hcall, fun k => ?_⟩
    simp only [construct, callbackKwargs, Kind.binned, Bool.false_eq_true, if_false, subclassKwargs,
      List.singleton_append, get?_cons, get?_lit, List.reverse_cons, get?_append, get?_nil]
    by_cases h : "num_bins" = k
    · subst h; simp [hnone]
    · simp [h]
  case kl =>
    refine ⟨_, hcall, fun k => ?_⟩
    simp only [construct, callbackKwargs, Kind.binned, Bool.false_eq_true, if_false, subclassKwargs,
      List.singleton_append, get?_cons, get?_lit, List.reverse_append, List.reverse_cons, List.reverse_nil,
      List.nil_append]
  case emd | energy =>
    exact ⟨lit extra, pyCall_nil_left _, fun k => rfl⟩

/-- **C13.1 (`own_params_mmd`)** — MMD, every kernel and `chunk_size`: `compare` calls `_mmd` with `kernel`,
`chunk_size` and the precomputed `expected_k_xx = e`; the callback passes the same `kernel` and `chunk_size` and no
`expected_k_xx` (so `_mmd` recomputes that term on every re-split, as it must).  Compare-time kwargs are empty
(a compare-time `kernel=`/`chunk_size=` would be a duplicate keyword, `Tests2.pyCall`). -/
theorem own_params_mmd (c : Cfg) (hk : c.kind = .mmd) (e : Val) :
    ∃ kws, compareCall (construct true c) e [] = .call kws ∧
      (∀ k, k ≠ "expected_k_xx" → get? kws k = get? (callbackKwargs (construct true c)) k) ∧
      get? kws "expected_k_xx" = some e ∧ get? (callbackKwargs (construct true c)) "expected_k_xx" = none ∧
      get? (callbackKwargs (construct true c)) "kernel" = some (.fn c.kernel) ∧
      get? (callbackKwargs (construct true c)) "chunk_size" = some (optNat c.chunkSize) := by
  obtain ⟨kind, nb, kernel, cs, extra⟩ := c
  subst hk
  refine ⟨[("kernel", .fn kernel), ("chunk_size", optNat cs), ("expected_k_xx", e)], pyCall_nil_right _, ?_, rfl, rfl, rfl, rfl⟩
  intro k hk
  simp only [construct, callbackKwargs, Kind.binned, Bool.false_eq_true, if_false, subclassKwargs]
  have : lit [("kernel", Val.fn kernel), ("chunk_size", optNat cs)] = [("kernel", Val.fn kernel), ("chunk_size", optNat cs)] := rfl
  rw [this]
  simp only [get?_cons, get?_nil]
  have : ¬ "expected_k_xx" = k := fun h => hk h.symm
  simp [this]

/-- a static distance function can only look its keyword arguments up -/
def LookupOnly {α X : Type} (stat : Dict → List X → List X → α) : Prop := ∀ d e, DictEq d e → stat d = stat e

/-- **C13.1 (`own_params_any_stat`)** — for every kind but MMD and every statistic that only looks keywords up:
each null statistic of the callback is the function `compare` evaluates (same statistic, same keyword values),
applied to the re-split `(p[:n], p[-m:])` -/
theorem own_params_any_stat {α X : Type} (stat : Dict → List X → List X → α) (hs : LookupOnly stat)
    (c : Cfg) (hwf : WellFormed c) (hk : c.kind ≠ .mmd) (n m : Nat) (perms : List (List X)) :
    ∃ kws, compareCall (construct true c) = .call kws ∧
      callbackNull stat (construct true c) n m perms
        = perms.map (fun p => stat kws (p.take n) (p.drop (p.length - m))) := by
  obtain ⟨kws, h1, h2⟩ := own_params c hwf hk .none []
  refine ⟨kws, h1, ?_⟩
  unfold callbackNull
  rw [C13.wiring, hs _ _ h2.symm]

/-- the six kinds that have a `num_bins` -/
def Kind.hasNumBins : Kind → Bool
  | .emd | .energy | .mmd => false
  | _ => true

/-- **C13.1 (`callback_num_bins`)** — repaired tree: the `num_bins` the callback passes is the constructor's argument -/
theorem callback_num_bins (c : Cfg) (hwf : WellFormed c) (hk : Kind.hasNumBins c.kind = true) :
    get? (callbackKwargs (construct true c)) "num_bins" = some (.int c.numBins) := by
  have hm : c.kind ≠ .mmd := by intro h; rw [h] at hk; exact absurd hk (by decide)
  obtain ⟨kws, h1, h2⟩ := own_params c hwf hm .none []
  rw [← h2 "num_bins"]
  obtain ⟨kind, nb, kernel, cs, extra⟩ := c
  cases kind
  case emd | energy | mmd => simp [Kind.hasNumBins] at hk
  all_goals
    simp only [construct, compareCall] at h1
  case psi | bhattacharyya | hiNormalizedComplement | hellinger =>
    rw [pyCall_nil_right] at h1; cases h1; rfl
  case js | kl =>
    have hx : "num_bins" ∉ keys (lit extra) := fun h => hwf ((mem_keys_lit extra _).mp h)
    rw [C12.pyCall_ok _ _ (by intro k hk; simp only [C12.keys, List.map_cons, List.map_nil, List.mem_singleton] at hk; subst hk; exact hx)] at h1
    cases h1; rfl

example : WellFormed { kind := .js, numBins := 4, extra := [("base", .int 2)] } := by unfold WellFormed; decide
example : callbackKwargs (construct true { kind := .kl, numBins := 4, extra := [("base", .int 2)] })
    = [("base", .int 2), ("num_bins", .int 4)] := by decide
example : compareCall (construct true { kind := .kl, numBins := 4, extra := [("base", .int 2)] })
    = .call [("num_bins", .int 4), ("base", .int 2)] := by
  simp only [construct, compareCall]; exact C12.pyCall_ok _ _ (by decide)

end OwnParams

/-! ## 3. the pre-repair merge order: the overwrite is expressible, and the property is false there -/
section PreRepair

/-- **C13.1 (`pre_repair_num_bins`)** — before the repair (`{**statistical_kwargs, "num_bins": num_bins}` with the base
class default `num_bins = 10`, because no binned subclass forwards its own), the callback of PSI, Hellinger,
Bhattacharyya and HINormalizedComplement passes `num_bins = 10` WHATEVER the detector was built with -/
theorem pre_repair_num_bins (c : Cfg) (hb : c.kind.binned = true) :
    get? (callbackKwargs (construct false c)) "num_bins" = some (.int 10) := by
  obtain ⟨kind, nb, kernel, cs, extra⟩ := c
  cases kind <;> first | (exfalso; simp [Kind.binned] at hb; done) | rfl

/-- **C13.1 (`pre_repair_overwrite`)** — NEGATIVE theorem for the pre-repair tree: for each of the four binned kinds
and every `num_bins ≠ 10`, `compare` computes the distance with the detector's `num_bins` while the callback's
dictionary says `10`: the two keyword sets differ, so "null statistics use the detector's own parameters" is false. -/
theorem pre_repair_overwrite (c : Cfg) (hb : c.kind.binned = true) (hne : c.numBins ≠ 10) (e : Val) (ck : Dict) :
    ∃ kws, compareCall (construct false c) e ck = .call kws ∧
      get? kws "num_bins" = some (.int c.numBins) ∧
      get? (callbackKwargs (construct false c)) "num_bins" = some (.int 10) ∧
      ¬ DictEq kws (callbackKwargs (construct false c)) := by
  have h10 := pre_repair_num_bins c hb
  obtain ⟨kind, nb, kernel, cs, extra⟩ := c
  have hne' : (Val.int (nb : Int)) ≠ Val.int 10 := by
    intro h; injection h with h; exact hne (by exact_mod_cast h)
  cases kind <;> first | (exfalso; simp [Kind.binned] at hb; done) | skip
  all_goals
    refine ⟨_, pyCall_nil_right _, rfl, h10, fun h => ?_⟩
    have := h "num_bins"
    rw [h10] at this
    exact hne' (Option.some.inj this)

/-- … and conversely the pre-repair tree is right exactly for the default `num_bins = 10` -/
theorem pre_repair_ok_iff (c : Cfg) (hb : c.kind.binned = true) (e : Val) (ck : Dict) :
    (∃ kws, compareCall (construct false c) e ck = .call kws ∧ DictEq kws (callbackKwargs (construct false c)))
      ↔ c.numBins = 10 := by
  constructor
  · rintro ⟨kws, h1, h2⟩
    by_contra hne
    obtain ⟨kws', h1', _, _, h4⟩ := pre_repair_overwrite c hb hne e ck
    rw [h1] at h1'; cases h1'; exact h4 h2
  · intro h
    obtain ⟨kind, nb, kernel, cs, extra⟩ := c
    simp only at h; subst h
    cases kind <;> first | (exfalso; simp [Kind.binned] at hb; done) | skip
    all_goals exact ⟨_, pyCall_nil_right _, fun k => rfl⟩

/-- the repair changed nothing for JS, KL, EMD, EnergyDistance and MMD -/
theorem pre_repair_other_kinds (c : Cfg) (hb : c.kind.binned = false) : construct false c = construct true c := by
  simp [construct, hb]

/-- PSI(num_bins=5): the callback's dictionary before and after the repair -/
theorem pre_repair_witness :
    callbackKwargs (construct false { kind := .psi, numBins := 5 }) = [("num_bins", .int 10)] ∧
    callbackKwargs (construct true { kind := .psi, numBins := 5 }) = [("num_bins", .int 5)] ∧
    compareCall (construct false { kind := .psi, numBins := 5 }) = .call [("num_bins", .int 5)] := by
  refine ⟨by decide, by decide, rfl⟩

end PreRepair

/-! ## 4. the four binned detectors with their actual distance functions (any carrier) -/
section Binned
variable {α : Type} [Num α]

/-- the distance of a binned kind as a function of `(reference, test, num_bins)` (`Hist`); other kinds: unused -/
def binnedDist (tiny : α) : Kind → List α → List α → Nat → α
  | .psi => Hist.psi tiny
  | .hellinger => Hist.hellinger
  | .bhattacharyya => Hist.bhattacharyya
  | .hiNormalizedComplement => Hist.hi
  | _ => fun _ _ _ => tiny

/-- binding a one-entry `num_bins` dictionary (resp. Hellinger's two entries) -/
theorem binnedStat_num_bins (tiny : α) (k : Kind) (hb : k.binned = true) (nb : Nat) (x y : List α) :
    binnedStat tiny k (if k = .hellinger then [("num_bins", .int nb), ("sqrt_div", sqrt2)] else [("num_bins", .int nb)]) x y
      = some (binnedDist tiny k x y nb) := by
  cases k <;> first | (exfalso; simp [Kind.binned] at hb; done) | rfl

/-- **C13.3 (`compare_binned`)** — `compare` of a binned detector (either tree) evaluates its distance with the
constructor's `num_bins` on `(reference, test)` in that order -/
theorem compare_binned (tiny : α) (repaired : Bool) (c : Cfg) (hb : c.kind.binned = true) (x y : List α) :
    ∃ kws, compareCall (construct repaired c) = .call kws ∧
      binnedStat tiny c.kind kws x y = some (binnedDist tiny c.kind x y c.numBins) := by
  obtain ⟨kind, nb, kernel, cs, extra⟩ := c
  cases kind <;> first | (exfalso; simp [Kind.binned] at hb; done) | skip
  all_goals exact ⟨_, pyCall_nil_right _, rfl⟩

/-- **C13.1 (`callbackNull_binned`)** — repaired tree: every null statistic of PSI / Hellinger / Bhattacharyya /
HINormalizedComplement is that detector's distance WITH THE DETECTOR'S `num_bins` on the re-split `(p[:n], p[-m:])` -/
theorem callbackNull_binned (tiny : α) (c : Cfg) (hb : c.kind.binned = true) (n m : Nat) (perms : List (List α)) :
    callbackNull (binnedStat tiny c.kind) (construct true c) n m perms
      = perms.map (fun p => some (binnedDist tiny c.kind (p.take n) (p.drop (p.length - m)) c.numBins)) := by
  obtain ⟨kind, nb, kernel, cs, extra⟩ := c
  cases kind <;> first | (exfalso; simp [Kind.binned] at hb; done) | skip
  all_goals
    unfold callbackNull
    rw [C13.wiring]
    rfl

/-- **C13.1 (`callbackNull_binned_pre_repair`)** — before the repair the same null statistics were computed with
`10` bins for every detector -/
theorem callbackNull_binned_pre_repair (tiny : α) (c : Cfg) (hb : c.kind.binned = true) (n m : Nat) (perms : List (List α)) :
    callbackNull (binnedStat tiny c.kind) (construct false c) n m perms
      = perms.map (fun p => some (binnedDist tiny c.kind (p.take n) (p.drop (p.length - m)) 10)) := by
  obtain ⟨kind, nb, kernel, cs, extra⟩ := c
  cases kind <;> first | (exfalso; simp [Kind.binned] at hb; done) | skip
  all_goals
    unfold callbackNull
    rw [C13.wiring]
    rfl

end Binned

/-! ## 5. residual defect of the repaired tree: `statistical_kwargs` is a snapshot taken by the constructor -/
section Stale

/-- assigning `detector.num_bins = v` afterwards changes what `compare` uses but not what the callback passes -/
theorem stale_after_setNumBins (c : Cfg) (hb : c.kind.binned = true) (v : Nat) (hv : v ≠ c.numBins) (e : Val) (ck : Dict) :
    ∃ kws, compareCall ((construct true c).setNumBins v) e ck = .call kws ∧
      get? kws "num_bins" = some (.int v) ∧
      get? (callbackKwargs ((construct true c).setNumBins v)) "num_bins" = some (.int c.numBins) ∧
      ¬ DictEq kws (callbackKwargs ((construct true c).setNumBins v)) := by
  obtain ⟨kind, nb, kernel, cs, extra⟩ := c
  have hne' : (Val.int (v : Int)) ≠ Val.int (nb : Int) := by
    intro h; injection h with h; exact hv (by exact_mod_cast h)
  cases kind <;> first | (exfalso; simp [Kind.binned] at hb; done) | skip
  all_goals
    refine ⟨_, pyCall_nil_right _, rfl, rfl, fun h => ?_⟩
    have := h "num_bins"
    exact hne' (Option.some.inj this)

/-- `p = PSI(num_bins=5); p.num_bins = 7` (observed on the repaired /repo: `statistical_kwargs == {'num_bins': 5}`) -/
theorem stale_after_setNumBins_witness :
    compareCall ((construct true { kind := .psi, numBins := 5 }).setNumBins 7) = .call [("num_bins", .int 7)] ∧
    callbackKwargs ((construct true { kind := .psi, numBins := 5 }).setNumBins 7) = [("num_bins", .int 5)] :=
  ⟨rfl, by decide⟩

end Stale

/-! ## 4b. the values differ (ℝ): HINormalizedComplement(num_bins=1) on reference `[0]`, test `[10]` -/
section ValueWitness
open Frouros.RealNum

theorem le_dec (a b : ℝ) : Num.le a b = decide (a ≤ b) := rfl
theorem lt_dec (a b : ℝ) : Num.lt a b = decide (a < b) := rfl

/-- with one bin both samples fall into the same bin (distance 0); with the ten bins of the pre-repair callback
they fall into the first and the last bin (distance 1) -/
theorem binned_value_witness : Hist.hi [(0 : ℝ)] [10] 1 = 0 ∧ Hist.hi [(0 : ℝ)] [10] 10 = 1 := by
  constructor <;>
  norm_num [Hist.hi, Hist.binsValues, Hist.edges, Hist.outerEdges, Hist.minL, Hist.maxL, Hist.linspace, Hist.counts,
    Hist.hiOf, Hist.sum, List.range, List.range.loop, List.filter, le_dec, lt_dec]

/-- the whole chain on that input: `compare` returns 0, the repaired callback's null statistic for the identity
permutation is 0, the pre-repair callback's is 1 -/
theorem pre_repair_value_witness :
    let c : Cfg := { kind := .hiNormalizedComplement, numBins := 1 }
    callbackNull (binnedStat (0 : ℝ) c.kind) (construct true c) 1 1 [[0, 10]] = [some 0] ∧
    callbackNull (binnedStat (0 : ℝ) c.kind) (construct false c) 1 1 [[0, 10]] = [some 1] := by
  intro c
  rw [callbackNull_binned 0 c rfl, callbackNull_binned_pre_repair 0 c rfl]
  simp only [List.map_cons, List.map_nil, binnedDist, c]
  exact ⟨by rw [show List.take 1 [(0:ℝ), 10] = [0] from rfl, show List.drop ([(0:ℝ), 10].length - 1) [(0:ℝ), 10] = [10] from rfl,
      binned_value_witness.1],
    by rw [show List.take 1 [(0:ℝ), 10] = [0] from rfl, show List.drop ([(0:ℝ), 10].length - 1) [(0:ℝ), 10] = [10] from rfl,
      binned_value_witness.2]⟩

end ValueWitness

/-! ## 6. p-values over ℝ: end-to-end range and monotonicity in the number of extreme statistics -/
section PValues
open Frouros.Perm Frouros.RealNum

/-- **C13.10 (`pValue_mem`)** — end to end: for every method except `estimate`, every accepted `num_permutations`, every
list of real null statistics and every observed value, the reported p-value lies in `(0, 1]`, provided the total number
of permutations is at least 2 (with `m_t = 1` the exact formula gives 0: `C13.pExact_zero_witness`). -/
theorem pValue_mem (meth : Method) (hm : meth ≠ .estimate) (n : Nat) (hn : n ≤ maxNumPerm) (total : Option Nat)
    (maxPerms : Nat) (hmt : 2 ≤ totalPerms total maxPerms) (null : List ℝ) (obs : ℝ) :
    0 < pValue meth n total maxPerms null obs ∧ pValue meth n total maxPerms null obs ≤ 1 := by
  obtain ⟨hc, ha, he, _⟩ := pvalues_valid null obs (totalPerms total maxPerms)
  rw [pValue_spec meth n total maxPerms null obs hn]
  cases meth
  · exact he hmt
  · exact hc
  · exact he hmt
  · exact ⟨(ha (by omega)).1, (ha (by omega)).2.le⟩
  · exact absurd rfl hm

/-- `estimate`: in `[0, 1]` for a non-empty list of null statistics (`num_permutations ≥ 1` guarantees that) -/
theorem pValue_estimate_mem (n : Nat) (hn : n ≤ maxNumPerm) (total : Option Nat) (maxPerms : Nat)
    (null : List ℝ) (hne : null ≠ []) (obs : ℝ) :
    0 ≤ pValue .estimate n total maxPerms null obs ∧ pValue .estimate n total maxPerms null obs ≤ 1 := by
  rw [pValue_spec .estimate n total maxPerms null obs hn]
  exact (pvalues_valid null obs 0).2.2.2 hne

example : 0 < pValue .auto 100 none 24 [1, 5, 3, 7] (4 : ℝ) ∧ pValue .auto 100 none 24 [1, 5, 3, 7] (4 : ℝ) ≤ 1 :=
  pValue_mem .auto (by decide) 100 (by decide) none 24 (by decide) _ _

/-- more extreme null statistics, larger conservative p-value (strictly) -/
theorem pConservative_mono (m : Nat) {b b' : Nat} (h : b < b') : (pConservative b m : ℝ) < pConservative b' m := by
  rw [pConservative_eq, pConservative_eq]
  have : (b : ℝ) < b' := by exact_mod_cast h
  have hm : (0 : ℝ) < (m : ℝ) + 1 := by positivity
  exact div_lt_div_of_pos_right (by linarith) hm

theorem pEstimate_mono (m : Nat) {b b' : Nat} (h : b ≤ b') : (pEstimate b m : ℝ) ≤ pEstimate b' m := by
  rw [pEstimate_eq, pEstimate_eq]
  have : (b : ℝ) ≤ b' := by exact_mod_cast h
  exact div_le_div_of_nonneg_right this (by positivity)

/-- the binomial CDF is monotone in its first argument on `p ∈ [0,1]` -/
theorem binomCdf_mono_b (m : Nat) {b b' : Nat} (h : b ≤ b') {p : ℝ} (h0 : 0 ≤ p) (h1 : p ≤ 1) :
    binomCdf b m p ≤ binomCdf b' m p := by
  rw [binomCdf_eq, binomCdf_eq]
  apply Finset.sum_le_sum_of_subset_of_nonneg
  · intro k hk; simp only [Finset.mem_range] at *; omega
  · intro k _ _; exact binomTerm_nonneg m k h0 h1

/-- more extreme null statistics, larger exact p-value -/
theorem pExact_mono (m mt : Nat) {b b' : Nat} (h : b ≤ b') : (pExact b m mt : ℝ) ≤ pExact b' m mt := by
  rw [pExact_eq, pExact_eq]
  apply div_le_div_of_nonneg_right _ (by positivity)
  apply Finset.sum_le_sum
  intro t ht
  obtain ⟨g0, g1⟩ := grid_mem t mt (Finset.mem_range.mp ht)
  exact binomCdf_mono_b m h g0 g1

/-- the number of extreme null statistics is antitone in the observed statistic -/
theorem extreme_antitone (null : List ℝ) {obs obs' : ℝ} (h : obs ≤ obs') : extreme null obs' ≤ extreme null obs := by
  unfold extreme
  induction null with
  | nil => simp
  | cons s l ih =>
    simp only [List.filter_cons]
    by_cases h1 : obs' ≤ s
    · have h2 : obs ≤ s := h.trans h1
      simp [h1, h2, ih]
    · by_cases h2 : obs ≤ s
      · simp [h1, h2]; omega
      · simp [h1, h2, ih]

/-- **C13 (`pValue_antitone_obs`)** — for `conservative`, `exact`, `auto` and `estimate`: a larger observed distance never
gets a larger p-value from the same null statistics -/
theorem pValue_antitone_obs (meth : Method) (hm : meth ≠ .approximate) (n : Nat) (hn : n ≤ maxNumPerm)
    (total : Option Nat) (maxPerms : Nat) (null : List ℝ) {obs obs' : ℝ} (h : obs ≤ obs') :
    pValue meth n total maxPerms null obs' ≤ pValue meth n total maxPerms null obs := by
  have hb := extreme_antitone null h
  rw [pValue_spec meth n total maxPerms null obs hn, pValue_spec meth n total maxPerms null obs' hn]
  cases meth
  · exact pExact_mono _ _ hb
  · rcases Nat.lt_or_ge (extreme null obs') (extreme null obs) with h' | h'
    · exact (pConservative_mono _ h').le
    · have : extreme null obs' = extreme null obs := le_antisymm hb h'
      simp only [this]; exact le_refl _
  · exact pExact_mono _ _ hb
  · exact absurd rfl hm
  · exact pEstimate_mono _ hb

example : pValue .conservative 100 none 24 [1, 5, 3, 7] (6 : ℝ) ≤ pValue .conservative 100 none 24 [1, 5, 3, 7] (4 : ℝ) :=
  pValue_antitone_obs .conservative (by decide) 100 (by decide) none 24 _ (by norm_num)

/- UNPROVED (full statement): monotonicity of the `approximate` p-value in `b`
   theorem pApproximate_mono (m mt : Nat) {b b' : Nat} (h : b ≤ b') (hb : b' ≤ m) (hmt : 1 ≤ mt) :
       (pApproximate b m mt : ℝ) ≤ pApproximate b' m mt
   (needs `a * ∫₀^a (F_{b'} − F_b) ≤ (b' − b)/(m+1)`, from `C13.cdfIntegral_eq`, `C13.cdfIntegral_one` and monotonicity of
   the integral in its upper limit; not attempted in the time box) -/

end PValues

end Frouros.C13

section axioms
open Frouros.C13
#print axioms get?_merge
#print axioms get?_lit
#print axioms lit_nodup
#print axioms lit_of_nodup
#print axioms own_params
#print axioms own_params_mmd
#print axioms own_params_any_stat
#print axioms callback_num_bins
#print axioms pre_repair_num_bins
#print axioms pre_repair_overwrite
#print axioms pre_repair_ok_iff
#print axioms pre_repair_other_kinds
#print axioms pre_repair_witness
#print axioms compare_binned
#print axioms callbackNull_binned
#print axioms callbackNull_binned_pre_repair
#print axioms binned_value_witness
#print axioms pre_repair_value_witness
#print axioms stale_after_setNumBins
#print axioms stale_after_setNumBins_witness
#print axioms pValue_mem
#print axioms pValue_estimate_mem
#print axioms pConservative_mono
#print axioms pEstimate_mono
#print axioms binomCdf_mono_b
#print axioms pExact_mono
#print axioms extreme_antitone
#print axioms pValue_antitone_obs
end axioms
