/-
  C02 (continued) — `reset` returns RDDM and STEPD to the freshly constructed state, and the
  observational corollaries `run_after_reset_<det>` for all machines.

  RDDM and STEPD keep a queue whose capacity comes from the configuration, and a sticky error
  field `err` that `reset` does not clear (a Python exception leaves the object as it is).  So
  `reset s = init` needs two invariants of REACHABLE states:
    * the queue capacity is the configured one (`CQ` operations never change `maxLen`),
    * `err = none`: with positive capacity no queue operation fails — `enqueue` only fails when the
      queue is full and empty at once (capacity 0); `keepLast` is only called right after a
      successful `enqueue`, when `count ≥ 1` and `last = some _`.
  The hypotheses `0 < c.minConcept` / `0 < c.minN` are necessary (see the `_witness` theorems) and
  are what the Python constructors enforce.  All statements hold for every carrier.
-/
import FrourosProofs.Props.C02
import FrourosProofs.Lemmas.Queue
import FrourosProofs.Lemmas.RDDM
namespace Frouros.C02
open Frouros
variable {α : Type} [Num α]

/-! ## RDDM -/

/-- invariant of reachable RDDM states (positive capacity): capacity as configured, no error -/
theorem rddm_inv (c : RDDM.Cfg α) (hc : 0 < c.minConcept) {s : RDDM.State α}
    (h : (RDDM.machine c).Reachable s) : s.preds.maxLen = c.minConcept ∧ s.err = none := by
  refine (RDDM.machine c).invariant (P := fun s => s.preds.maxLen = c.minConcept ∧ s.err = none) ?_ ?_ ?_ h
  · exact ⟨rfl, rfl⟩
  · intro s v ⟨h1, h2⟩
    obtain ⟨p1, _, p3, _⟩ := RDDM.pre_spec c s
    obtain ⟨_, _, _, _, _, q6, q7⟩ := RDDM.post_spec c (RDDM.pre c s) v
    simp only [RDDM.machine, RDDM.step_eq]
    rw [p1] at q6 q7
    exact ⟨by rw [q6, h1], by rw [q7 (by omega), p3, h2]⟩
  · intro s ⟨h1, h2⟩
    exact ⟨h1, h2⟩

theorem reset_eq_init_rddm (c : RDDM.Cfg α) (hc : 0 < c.minConcept) (s : RDDM.State α)
    (h : (RDDM.machine c).Reachable s) : (RDDM.machine c).reset s = (RDDM.machine c).init := by
  obtain ⟨h1, h2⟩ := rddm_inv c hc h
  simp only [RDDM.machine, RDDM.reset, RDDM.init, CQ.clear_eq_init, h1, h2]

/-- non-vacuity: the default capacity is positive, and states after updates are reachable -/
example : 0 < (⟨(Num.zero : α), Num.zero, 129, 40000, 7000, 1400⟩ : RDDM.Cfg α).minConcept := Nat.succ_pos _
example (c : RDDM.Cfg α) (x y : α) :
    (RDDM.machine c).Reachable (RDDM.step c (RDDM.step c (RDDM.init c) x) y) := .step y (.step x .init)

/-- the hypothesis `0 < minConcept` cannot be dropped: with capacity 0 the first update fails in
`enqueue` (full and empty at once), the error is recorded, and `reset` does not clear it. -/
theorem reset_eq_init_rddm_witness (c : RDDM.Cfg α) (hc : c.minConcept = 0) (v : α) :
    (RDDM.machine c).Reachable (RDDM.step c (RDDM.init c) v) ∧
    (RDDM.machine c).reset (RDDM.step c (RDDM.init c) v) ≠ (RDDM.machine c).init := by
  refine ⟨.step v .init, fun h => ?_⟩
  have he : ((RDDM.machine c).reset (RDDM.step c (RDDM.init c) v)).err = ((RDDM.machine c).init).err := by rw [h]
  simp [RDDM.machine, RDDM.reset, RDDM.step, RDDM.init, hc, CQ.init, CQ.enqueue, CQ.isFull, CQ.dequeue, CQ.isEmpty] at he

/-! ## STEPD -/

theorem stepd_inv (sf : α → α) (c : STEPD.Cfg α) (hc : 0 < c.minN) {s : STEPD.State}
    (h : (STEPD.machine sf c).Reachable s) : s.win.q.maxLen = c.minN ∧ s.err = none := by
  refine (STEPD.machine sf c).invariant (P := fun s => s.win.q.maxLen = c.minN ∧ s.err = none) ?_ ?_ ?_ h
  · exact ⟨rfl, rfl⟩
  · intro s v ⟨h1, h2⟩
    simp only [STEPD.machine]
    cases he : s.win.enqueue v with
    | error e => have := AccQ.enqueue_error he; omega
    | ok w => have := AccQ.enqueue_ok he; grind [STEPD.step]
  · intro s ⟨h1, h2⟩
    exact ⟨h1, h2⟩

theorem reset_eq_init_stepd (sf : α → α) (c : STEPD.Cfg α) (hc : 0 < c.minN) (s : STEPD.State)
    (h : (STEPD.machine sf c).Reachable s) : (STEPD.machine sf c).reset s = (STEPD.machine sf c).init := by
  obtain ⟨h1, h2⟩ := stepd_inv sf c hc h
  simp only [STEPD.machine, STEPD.reset, STEPD.init, AccQ.clear_eq_init, h1, h2]

example : 0 < (⟨(Num.zero : α), Num.zero, 30⟩ : STEPD.Cfg α).minN := Nat.succ_pos _
example (sf : α → α) (c : STEPD.Cfg α) :
    (STEPD.machine sf c).Reachable (STEPD.step sf c (STEPD.step sf c (STEPD.init c) true) false) :=
  .step false (.step true .init)

/-- the hypothesis `0 < minN` cannot be dropped -/
theorem reset_eq_init_stepd_witness (sf : α → α) (c : STEPD.Cfg α) (hc : c.minN = 0) (v : Bool) :
    (STEPD.machine sf c).Reachable (STEPD.step sf c (STEPD.init c) v) ∧
    (STEPD.machine sf c).reset (STEPD.step sf c (STEPD.init c) v) ≠ (STEPD.machine sf c).init := by
  refine ⟨.step v .init, fun h => ?_⟩
  have he : ((STEPD.machine sf c).reset (STEPD.step sf c (STEPD.init c) v)).err = ((STEPD.machine sf c).init).err := by rw [h]
  simp [STEPD.machine, STEPD.reset, STEPD.step, STEPD.init, hc, AccQ.init, AccQ.enqueue, AccQ.dequeue,
    CQ.init, CQ.isFull, CQ.dequeue, CQ.isEmpty] at he

/-! ## `run_after_reset` for every machine: the state (hence every later output) after
`pre ++ [reset] ++ post` is the state after `post` alone.  Taking `post.take k` for `post` gives the
same for every prefix, i.e. the whole output sequence after the reset coincides with that of a
fresh detector.  The 11 machines cover the 13 detectors (`CUSUMFam` = CUSUM, Page–Hinkley, GMA). -/

theorem run_after_reset_ddm (c : DDM.Cfg α) (pre post : List (Op α)) :
    (DDM.machine c).run (pre ++ [.reset] ++ post) = (DDM.machine c).run post :=
  (DDM.machine c).run_after_reset (fun s _ => reset_eq_init_ddm c s) pre post

theorem run_after_reset_eddm (c : EDDM.Cfg α) (pre post : List (Op α)) :
    (EDDM.machine c).run (pre ++ [.reset] ++ post) = (EDDM.machine c).run post :=
  (EDDM.machine c).run_after_reset (fun s _ => reset_eq_init_eddm c s) pre post

theorem run_after_reset_ecdd (c : ECDD.Cfg α) (pre post : List (Op α)) :
    (ECDD.machine c).run (pre ++ [.reset] ++ post) = (ECDD.machine c).run post :=
  (ECDD.machine c).run_after_reset (fun s _ => reset_eq_init_ecdd c s) pre post

theorem run_after_reset_hddma (c : HDDMA.Cfg α) (pre post : List (Op α)) :
    (HDDMA.machine c).run (pre ++ [.reset] ++ post) = (HDDMA.machine c).run post :=
  (HDDMA.machine c).run_after_reset (fun s _ => reset_eq_init_hddma c s) pre post

theorem run_after_reset_hddmw (c : HDDMW.Cfg α) (pre post : List (Op α)) :
    (HDDMW.machine c).run (pre ++ [.reset] ++ post) = (HDDMW.machine c).run post :=
  (HDDMW.machine c).run_after_reset (fun s _ => reset_eq_init_hddmw c s) pre post

theorem run_after_reset_adwin (c : ADWIN.Cfg α) (pre post : List (Op α)) :
    (ADWIN.machine c).run (pre ++ [.reset] ++ post) = (ADWIN.machine c).run post :=
  (ADWIN.machine c).run_after_reset (fun s _ => reset_eq_init_adwin c s) pre post

theorem run_after_reset_kswin (ksP : List α → List α → α) (c : KSWIN.Cfg α) (pre post : List (Op (α × List Nat))) :
    (KSWIN.machine ksP c).run (pre ++ [.reset] ++ post) = (KSWIN.machine ksP c).run post :=
  (KSWIN.machine ksP c).run_after_reset (fun s _ => reset_eq_init_kswin ksP c s) pre post

/-- CUSUM, Page–Hinkley and geometric moving average (`c.kind` arbitrary) -/
theorem run_after_reset_cusum (c : CUSUMFam.Cfg α) (pre post : List (Op α)) :
    (CUSUMFam.machine c).run (pre ++ [.reset] ++ post) = (CUSUMFam.machine c).run post :=
  (CUSUMFam.machine c).run_after_reset (fun s _ => reset_eq_init_cusum c s) pre post

theorem run_after_reset_bocd (f : BOCD.Fns α) (c : BOCD.Cfg α) (pre post : List (Op α)) :
    (BOCD.machine f c).run (pre ++ [.reset] ++ post) = (BOCD.machine f c).run post :=
  (BOCD.machine f c).run_after_reset (fun s _ => reset_eq_init_bocd f c s) pre post

theorem run_after_reset_rddm (c : RDDM.Cfg α) (hc : 0 < c.minConcept) (pre post : List (Op α)) :
    (RDDM.machine c).run (pre ++ [.reset] ++ post) = (RDDM.machine c).run post :=
  (RDDM.machine c).run_after_reset (reset_eq_init_rddm c hc) pre post

theorem run_after_reset_stepd (sf : α → α) (c : STEPD.Cfg α) (hc : 0 < c.minN) (pre post : List (Op Bool)) :
    (STEPD.machine sf c).run (pre ++ [.reset] ++ post) = (STEPD.machine sf c).run post :=
  (STEPD.machine sf c).run_after_reset (reset_eq_init_stepd sf c hc) pre post

/-- non-vacuity of the corollaries: a history with a non-trivial prefix and suffix -/
example (c : DDM.Cfg α) (x y z : α) :
    (DDM.machine c).run ([.update x, .update y] ++ [.reset] ++ [.update z]) = (DDM.machine c).run [.update z] :=
  run_after_reset_ddm c _ _

end Frouros.C02

open Frouros Frouros.C02 in
#print axioms reset_eq_init_rddm
open Frouros Frouros.C02 in
#print axioms reset_eq_init_stepd
#print axioms Frouros.C02.reset_eq_init_rddm_witness
#print axioms Frouros.C02.reset_eq_init_stepd_witness
#print axioms Frouros.C02.run_after_reset_ddm
#print axioms Frouros.C02.run_after_reset_rddm
#print axioms Frouros.C02.run_after_reset_eddm
#print axioms Frouros.C02.run_after_reset_ecdd
#print axioms Frouros.C02.run_after_reset_hddma
#print axioms Frouros.C02.run_after_reset_hddmw
#print axioms Frouros.C02.run_after_reset_adwin
#print axioms Frouros.C02.run_after_reset_kswin
#print axioms Frouros.C02.run_after_reset_stepd
#print axioms Frouros.C02.run_after_reset_cusum
#print axioms Frouros.C02.run_after_reset_bocd
