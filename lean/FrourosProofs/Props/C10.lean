/-
  C10 — histogram and transport distances equal their formulas and obey the distance axioms.
  Model: `FrourosModel/Hist.lean`; everything at `α = ℝ` (instance in `FrourosProofs/RealNum.lean`),
  except the carrier-independent bookkeeping at the end.

  A. distances between probability vectors (`hellingerOf`, `bhattacharyyaOf`, `hiOf`, `psiOf`, `klOf`, `jsOf`):
     ranges, symmetry, identity; witnesses `kl_unequal_length_witness`, `js_degenerate_witness`.
  C. transport distances (`emd`, `energy`): non-negativity, symmetry, identity, affine scaling for
     `a > 0`, `a < 0` and `a ≠ 0`.
  B. binning: `counts_sum`, `binsValues_isProb`, the binned distances inherit A; permutation invariance;
     `binned_self`; witness `zero_bins_witness`.

  Helper lemmas: `FrourosProofs/Lemmas/HistBasic.lean` (foldl sums = `List.sum`, `sumOpt`),
  `HistSort.lean` (model sort = insertion sort, consecutive pairs), `HistBins.lean` (min/max, linspace, counts).
  Convention: hypotheses `u ≠ []` that a proof does not use are kept (named `_h…`) where the model would
  otherwise divide by a zero length, so that no statement holds merely because Lean's `x / 0 = 0`.
-/
import FrourosProofs.Lemmas.HistSort
import FrourosProofs.Lemmas.HistBins

namespace Frouros.C10
open Frouros Frouros.Hist

/-- `p` is a probability vector: non-negative entries summing to one -/
def IsProb (p : List ℝ) : Prop := (∀ x ∈ p, 0 ≤ x) ∧ p.sum = 1

/-! ## A. Distances between probability vectors -/

/-- Bhattacharyya coefficient `Σ √(p_i q_i)` -/
noncomputable def bc (p q : List ℝ) : ℝ := ((List.zip p q).map (fun x => Real.sqrt (x.1 * x.2))).sum

theorem bhattacharyyaOf_eq (p q : List ℝ) : bhattacharyyaOf p q = 1 - bc p q := by
  unfold bhattacharyyaOf bc
  rw [sum_eq, zipWith_eq_map_zip]; simp

theorem bc_nonneg (p q : List ℝ) : 0 ≤ bc p q :=
  sum_map_nonneg _ _ (fun _ _ => Real.sqrt_nonneg _)

theorem sqrt_mul_le_half {a b : ℝ} (ha : 0 ≤ a) (hb : 0 ≤ b) : Real.sqrt (a * b) ≤ (a + b) / 2 := by
  rw [Real.sqrt_mul ha]
  nlinarith [sq_nonneg (Real.sqrt a - Real.sqrt b), Real.sq_sqrt ha, Real.sq_sqrt hb]

/-- AM–GM summed: `Σ √(p_i q_i) ≤ (Σ p + Σ q) / 2` -/
theorem bc_le {p q : List ℝ} (hp : ∀ x ∈ p, 0 ≤ x) (hq : ∀ x ∈ q, 0 ≤ x) :
    bc p q ≤ (p.sum + q.sum) / 2 := by
  unfold bc
  have h := sum_map_le (List.zip p q) (fun x => Real.sqrt (x.1 * x.2)) (fun x => (1/2) * (x.1 + x.2)) (by
    rintro ⟨a, b⟩ hab
    have := List.of_mem_zip hab
    have := sqrt_mul_le_half (hp a this.1) (hq b this.2)
    simp only; linarith)
  rw [sum_map_mul_left', sum_map_add'] at h
  have h1 := sum_zip_fst_le (q := q) hp
  have h2 := sum_zip_snd_le (p := p) hq
  linarith

theorem bc_le_one {p q : List ℝ} (hp : IsProb p) (hq : IsProb q) : bc p q ≤ 1 := by
  have := bc_le hp.1 hq.1
  rw [hp.2, hq.2] at this; linarith

theorem bc_comm (p q : List ℝ) : bc p q = bc q p := by
  unfold bc
  rw [← zipWith_eq_map_zip (fun a b => Real.sqrt (a * b)), ← zipWith_eq_map_zip (fun a b => Real.sqrt (a * b)),
    List.zipWith_comm_of_comm (fun a b => by rw [mul_comm])]

theorem bc_self {p : List ℝ} (hp : ∀ x ∈ p, 0 ≤ x) : bc p p = p.sum := by
  unfold bc
  rw [← zipWith_eq_map_zip (fun a b => Real.sqrt (a * b)), List.zipWith_self]
  rw [List.map_congr_left (g := id) (fun a ha => by simpa using Real.sqrt_mul_self (hp a ha))]; simp

/-- the sum of squared root differences in terms of the Bhattacharyya coefficient -/
theorem hell_sq {p q : List ℝ} (hlen : p.length = q.length) (hp : ∀ x ∈ p, 0 ≤ x) (hq : ∀ x ∈ q, 0 ≤ x) :
    ((List.zip p q).map (fun x => (Real.sqrt x.1 - Real.sqrt x.2) ^ 2)).sum = p.sum + q.sum - 2 * bc p q := by
  unfold bc
  rw [← sum_zip_fst hlen, ← sum_zip_snd hlen, ← sum_map_mul_left', ← sum_map_add', ← sum_map_sub']
  apply sum_map_congr
  rintro ⟨a, b⟩ hab
  have := List.of_mem_zip hab
  have ha := hp a this.1
  have hb := hq b this.2
  simp only
  rw [Real.sqrt_mul ha]
  nlinarith [Real.sq_sqrt ha, Real.sq_sqrt hb]

theorem hellingerOf_eq (p q : List ℝ) :
    hellingerOf p q = Real.sqrt ((List.zip p q).map (fun x => (Real.sqrt x.1 - Real.sqrt x.2) ^ 2)).sum / Real.sqrt 2 := by
  unfold hellingerOf
  rw [sum_eq, zipWith_eq_map_zip]; simp

/-- Hellinger distance and Bhattacharyya coefficient: `H = √(1 − BC)` on probability vectors -/
theorem hellingerOf_eq_sqrt_one_sub_bc {p q : List ℝ} (hlen : p.length = q.length) (hp : IsProb p) (hq : IsProb q) :
    hellingerOf p q = Real.sqrt (1 - bc p q) := by
  rw [hellingerOf_eq, hell_sq hlen hp.1 hq.1, hp.2, hq.2, ← Real.sqrt_div' _ (by norm_num)]
  congr 1; ring

/-- the sum of squared root differences is at most `Σ p + Σ q` (any lengths: `zipWith` truncates) -/
theorem hell_sq_le {p q : List ℝ} (hp : ∀ x ∈ p, 0 ≤ x) (hq : ∀ x ∈ q, 0 ≤ x) :
    ((List.zip p q).map (fun x => (Real.sqrt x.1 - Real.sqrt x.2) ^ 2)).sum ≤ p.sum + q.sum := by
  have h := sum_map_le (List.zip p q) (fun x => (Real.sqrt x.1 - Real.sqrt x.2) ^ 2) (fun x => x.1 + x.2) (by
    rintro ⟨a, b⟩ hab
    have := List.of_mem_zip hab
    have ha := hp a this.1
    have hb := hq b this.2
    simp only
    nlinarith [Real.sq_sqrt ha, Real.sq_sqrt hb, Real.sqrt_nonneg a, Real.sqrt_nonneg b,
      mul_nonneg (Real.sqrt_nonneg a) (Real.sqrt_nonneg b)])
  rw [sum_map_add'] at h
  linarith [sum_zip_fst_le (q := q) hp, sum_zip_snd_le (p := p) hq]

/-- **Hellinger distance lies in `[0,1]`** on probability vectors (the equal-length hypothesis of the
informal statement is not needed for the bounds; it is needed for `H = √(1 − BC)` above). -/
theorem hellinger_mem_Icc {p q : List ℝ} (hp : IsProb p) (hq : IsProb q) :
    0 ≤ hellingerOf p q ∧ hellingerOf p q ≤ 1 := by
  rw [hellingerOf_eq]
  have h2 : (0:ℝ) < Real.sqrt 2 := Real.sqrt_pos.mpr (by norm_num)
  refine ⟨div_nonneg (Real.sqrt_nonneg _) h2.le, ?_⟩
  rw [div_le_one h2]
  apply Real.sqrt_le_sqrt
  have := hell_sq_le hp.1 hq.1
  rw [hp.2, hq.2] at this
  linarith

/-- non-vacuity: two different probability vectors of equal length -/
example : IsProb [1/2, 1/2] ∧ IsProb [1/4, 3/4] ∧ [(1:ℝ)/2, 1/2].length = [(1:ℝ)/4, 3/4].length := by
  refine ⟨⟨?_, ?_⟩, ⟨?_, ?_⟩, rfl⟩ <;> norm_num

/-- **Hellinger distance is symmetric** (all vectors; only `(x-y)^2 = (y-x)^2` is used). -/
theorem hellinger_symm (p q : List ℝ) : hellingerOf p q = hellingerOf q p := by
  unfold hellingerOf
  rw [List.zipWith_comm_of_comm (fun a b => by simp only [RealNum.npow_eq, RealNum.sqrt_eq]; ring)]

/-- **Hellinger distance of a vector with itself is 0** (every term is `(√x − √x)^2 = 0`). -/
theorem hellinger_self (p : List ℝ) : hellingerOf p p = 0 := by
  rw [hellingerOf_eq, ← zipWith_eq_map_zip (fun a b => (Real.sqrt a - Real.sqrt b) ^ 2), List.zipWith_self,
    sum_map_eq_zero _ _ (fun x _ => by simp)]
  simp

/-- **Bhattacharyya distance lies in `[0,1]`** on probability vectors (`Σ √(p_i q_i) ≤ 1` by AM–GM;
any lengths — `zipWith` truncates, which only decreases the coefficient). -/
theorem bhatt_mem_Icc {p q : List ℝ} (hp : IsProb p) (hq : IsProb q) :
    0 ≤ bhattacharyyaOf p q ∧ bhattacharyyaOf p q ≤ 1 := by
  rw [bhattacharyyaOf_eq]
  exact ⟨by linarith [bc_le_one hp hq], by linarith [bc_nonneg p q]⟩

/-- **Bhattacharyya distance is symmetric** (all vectors). -/
theorem bhatt_symm (p q : List ℝ) : bhattacharyyaOf p q = bhattacharyyaOf q p := by
  rw [bhattacharyyaOf_eq, bhattacharyyaOf_eq, bc_comm]

/-- **Bhattacharyya distance of a probability vector with itself is 0**
(`√(x·x) = x` needs `0 ≤ x`; `Σ p = 1` is needed because the model computes `1 − Σ`). -/
theorem bhatt_self {p : List ℝ} (hp : IsProb p) : bhattacharyyaOf p p = 0 := by
  rw [bhattacharyyaOf_eq, bc_self hp.1, hp.2]; ring

/-! ### histogram intersection -/

/-- the intersection mass `Σ min(p_i, q_i)` as the model computes it -/
noncomputable def inter (p q : List ℝ) : ℝ := ((List.zip p q).map (fun x => min x.1 x.2)).sum

theorem hiOf_eq (p q : List ℝ) : hiOf p q = 1 - inter p q := by
  unfold hiOf inter
  rw [sum_eq, zipWith_eq_map_zip, RealNum.one_eq]
  congr 2
  apply List.map_congr_left
  rintro ⟨a, b⟩ _
  simp only
  by_cases h : b < a
  · simp [h, min_eq_right (le_of_lt h)]
  · simp [h, min_eq_left (not_lt.mp h)]

theorem inter_nonneg {p q : List ℝ} (hp : ∀ x ∈ p, 0 ≤ x) (hq : ∀ x ∈ q, 0 ≤ x) : 0 ≤ inter p q :=
  sum_map_nonneg _ _ (by
    rintro ⟨a, b⟩ hab
    have := List.of_mem_zip hab
    exact le_min (hp a this.1) (hq b this.2))

theorem inter_le {p q : List ℝ} (hp : ∀ x ∈ p, 0 ≤ x) : inter p q ≤ p.sum :=
  le_trans (sum_map_le _ _ _ (fun _ _ => min_le_left _ _)) (sum_zip_fst_le hp)

/-- **Histogram-intersection complement lies in `[0,1]`** on probability vectors (any lengths). -/
theorem hi_mem_Icc {p q : List ℝ} (hp : IsProb p) (hq : IsProb q) :
    0 ≤ hiOf p q ∧ hiOf p q ≤ 1 := by
  rw [hiOf_eq]
  have h1 := inter_le (q := q) hp.1
  rw [hp.2] at h1
  exact ⟨by linarith, by linarith [inter_nonneg hp.1 hq.1]⟩

/-- **Histogram-intersection complement is symmetric** (all vectors, at ℝ). -/
theorem hi_symm (p q : List ℝ) : hiOf p q = hiOf q p := by
  rw [hiOf_eq, hiOf_eq]
  unfold inter
  rw [← zipWith_eq_map_zip (fun a b => min a b), ← zipWith_eq_map_zip (fun a b => min a b),
    List.zipWith_comm_of_comm (fun a b => min_comm a b)]

/-- **Histogram-intersection complement of a vector of total mass 1 with itself is 0**. -/
theorem hi_self {p : List ℝ} (hp : p.sum = 1) : hiOf p p = 0 := by
  rw [hiOf_eq]
  unfold inter
  rw [← zipWith_eq_map_zip (fun a b => min a b), List.zipWith_self]
  simp [hp]

/-! ### PSI -/

/-- the model's floor of empty bins -/
noncomputable def fl (floor v : ℝ) : ℝ := if v = 0 then floor else v

theorem fl_pos {floor v : ℝ} (hf : 0 < floor) (hv : 0 ≤ v) : 0 < fl floor v := by
  unfold fl
  split
  · exact hf
  · exact lt_of_le_of_ne hv (Ne.symm ‹_›)

theorem psiOf_eq (floor : ℝ) (p q : List ℝ) :
    psiOf floor p q = ((List.zip p q).map (fun x =>
      (fl floor x.2 - fl floor x.1) * Real.log (fl floor x.2 / fl floor x.1))).sum := by
  unfold psiOf
  rw [sum_eq, zipWith_eq_map_zip]
  simp [fl]

/-- one PSI term is non-negative for positive arguments -/
theorem psi_term_nonneg {a b : ℝ} (ha : 0 < a) (hb : 0 < b) : 0 ≤ (b - a) * Real.log (b / a) := by
  rcases le_total a b with h | h
  · exact mul_nonneg (by linarith) (Real.log_nonneg (by rw [le_div_iff₀ ha]; linarith))
  · exact mul_nonneg_of_nonpos_of_nonpos (by linarith)
      (Real.log_nonpos (le_of_lt (div_pos hb ha)) (by rw [div_le_iff₀ ha]; linarith))

/-- **PSI is non-negative** for vectors with non-negative entries (any lengths: `zipWith` truncates),
for every positive `floor` (the model replaces exact zeros by `floor`, so all arguments of `log` and
all denominators are positive). -/
theorem psi_nonneg {floor : ℝ} (hf : 0 < floor) {p q : List ℝ} (hp : ∀ x ∈ p, 0 ≤ x) (hq : ∀ x ∈ q, 0 ≤ x) :
    0 ≤ psiOf floor p q := by
  rw [psiOf_eq]
  apply sum_map_nonneg
  rintro ⟨a, b⟩ hab
  have := List.of_mem_zip hab
  exact psi_term_nonneg (fl_pos hf (hp a this.1)) (fl_pos hf (hq b this.2))

example : (0:ℝ) < 1/1000 ∧ (∀ x ∈ [(0:ℝ), 1], 0 ≤ x) ∧ (∀ x ∈ [(1:ℝ)/2, 1/2], 0 ≤ x) := by
  refine ⟨by norm_num, ?_, ?_⟩ <;> norm_num

/-- **PSI is symmetric**, for positive `floor` and non-negative entries (so that every quotient is a
quotient of positive numbers and `log (b/a) = − log (a/b)` is used only there — the identity also
holds for Lean's totalised `x/0 = 0`, `log 0 = 0`, which is why the hypotheses are kept). -/
theorem psi_symm {floor : ℝ} (hf : 0 < floor) {p q : List ℝ} (hp : ∀ x ∈ p, 0 ≤ x) (hq : ∀ x ∈ q, 0 ≤ x) :
    psiOf floor p q = psiOf floor q p := by
  rw [psiOf_eq, psiOf_eq]
  have hswap : List.zip q p = (List.zip p q).map Prod.swap := by
    rw [List.zip_swap]
  rw [hswap, List.map_map]
  apply sum_map_congr
  rintro ⟨a, b⟩ hab
  have := List.of_mem_zip hab
  have ha := fl_pos hf (hp a this.1)
  have hb := fl_pos hf (hq b this.2)
  simp only [Function.comp, Prod.swap]
  rw [Real.log_div hb.ne' ha.ne', Real.log_div ha.ne' hb.ne']; ring

/-- **PSI of a vector with itself is 0** (each term is `(x − x) · log (x/x)`; with positive `floor`
and non-negative entries `x/x = 1`). -/
theorem psi_self {floor : ℝ} (hf : 0 < floor) {p : List ℝ} (hp : ∀ x ∈ p, 0 ≤ x) : psiOf floor p p = 0 := by
  rw [psiOf_eq, ← zipWith_eq_map_zip (fun a b => (fl floor b - fl floor a) * Real.log (fl floor b / fl floor a)),
    List.zipWith_self]
  apply sum_map_eq_zero
  intro x hx
  rw [div_self (fl_pos hf (hp x hx)).ne']; simp

/-! ### KL -/

theorem relEntr_eq (x y : ℝ) :
    relEntr x y = if x = 0 then some 0 else if y = 0 then none else some (x * Real.log (x / y)) := by
  unfold relEntr
  simp

/-- a finite `sumOpt` over a mapped list: every term is finite, the value is the sum -/
theorem sumOpt_map_eq_some {β : Type} (l : List β) (f : β → Option ℝ) (v : ℝ) (h : sumOpt (l.map f) = some v) :
    ∃ g : β → ℝ, (∀ x ∈ l, f x = some (g x)) ∧ v = (l.map g).sum := by
  obtain ⟨l', h1, _⟩ := sumOpt_eq_some _ _ h
  have hg : ∀ x ∈ l, f x = some ((f x).getD 0) := by
    intro x hx
    have : f x ∈ l'.map some := h1 ▸ List.mem_map_of_mem hx
    obtain ⟨y, _, hy⟩ := List.mem_map.mp this
    rw [← hy]; rfl
  refine ⟨fun x => (f x).getD 0, hg, ?_⟩
  rw [sumOpt_map l f _ hg] at h
  exact (Option.some.inj h).symm

/-- Gibbs' inequality, one term: `t − r ≤ t · log (t / r)` for positive `t`, `r` -/
theorem gibbs_term {t r : ℝ} (ht : 0 < t) (hr : 0 < r) : t - r ≤ t * Real.log (t / r) := by
  have h := Real.log_le_sub_one_of_pos (div_pos hr ht)
  have h2 : Real.log (t / r) = - Real.log (r / t) := by
    rw [Real.log_div ht.ne' hr.ne', Real.log_div hr.ne' ht.ne']; ring
  rw [h2]
  have h3 : t * (r / t - 1) = r - t := by field_simp
  nlinarith

/-- **KL divergence is non-negative** (Gibbs): if the model's `klOf ref test` is finite (`some v`; no
term `test_i > 0 = ref_i`), both are probability vectors and have the same length, then `0 ≤ v`.
Equal lengths are needed because `zipWith` truncates to the shorter vector. -/
theorem kl_nonneg {ref test : List ℝ} (hlen : ref.length = test.length) (hr : IsProb ref) (ht : IsProb test)
    {v : ℝ} (h : klOf ref test = some v) : 0 ≤ v := by
  unfold klOf at h
  rw [zipWith_eq_map_zip] at h
  obtain ⟨g, hg, rfl⟩ := sumOpt_map_eq_some _ _ _ h
  have hle := sum_map_le (List.zip test ref) (fun x => x.1 - x.2) g (by
    rintro ⟨t, r⟩ hab
    have hm := List.of_mem_zip hab
    have ht0 := ht.1 t hm.1
    have hr0 := hr.1 r hm.2
    have hgx := hg _ hab
    simp only [relEntr_eq] at hgx
    simp only
    split at hgx
    · rename_i h0
      have := Option.some.inj hgx
      rw [← this, h0]; linarith
    · rename_i h0
      split at hgx
      · cases hgx
      · rename_i h1
        have := Option.some.inj hgx
        rw [← this]
        exact gibbs_term (lt_of_le_of_ne ht0 (Ne.symm h0)) (lt_of_le_of_ne hr0 (Ne.symm h1)))
  rw [sum_map_sub', sum_zip_fst hlen.symm, sum_zip_snd hlen.symm, ht.2, hr.2] at hle
  linarith

/-- non-vacuity of `kl_nonneg`: a finite, non-zero instance -/
example : ∃ v, klOf [(1:ℝ)/2, 1/2] [(1:ℝ)/4, 3/4] = some v := by
  have h : klOf [(1:ℝ)/2, 1/2] [(1:ℝ)/4, 3/4]
      = sumOpt ([(1:ℝ)/4 * Real.log (1/4 / (1/2)), 3/4 * Real.log (3/4 / (1/2))].map some) := by
    unfold klOf
    simp only [List.zipWith_cons_cons, List.zipWith_nil_right, relEntr_eq, List.map_cons, List.map_nil]
    norm_num
  exact ⟨_, h.trans (sumOpt_map_some _)⟩

/-- **Equal lengths are necessary in `kl_nonneg`**: `zipWith` truncates the longer vector, and then the
"divergence" of two probability vectors can be negative. -/
theorem kl_unequal_length_witness :
    IsProb [(1:ℝ)] ∧ IsProb [(1:ℝ)/2, 1/2] ∧ ∃ v, klOf [(1:ℝ)] [(1:ℝ)/2, 1/2] = some v ∧ v < 0 := by
  refine ⟨⟨by simp, by simp⟩, ⟨by norm_num, by norm_num⟩, (1:ℝ)/2 * Real.log (1/2 / 1) + 0, ?_, ?_⟩
  · have h : klOf [(1:ℝ)] [(1:ℝ)/2, 1/2] = sumOpt ([(1:ℝ)/2 * Real.log (1/2 / 1)].map some) := by
      unfold klOf
      simp only [List.zipWith_cons_cons, List.zipWith_nil_right, relEntr_eq, List.map_cons, List.map_nil]
      norm_num
    rw [h, sumOpt_map_some]; simp
  · have : Real.log (1/2 / 1) < 0 := Real.log_neg (by norm_num) (by norm_num)
    nlinarith

theorem relEntr_self (x : ℝ) : relEntr x x = some 0 := by
  rw [relEntr_eq]
  by_cases h : x = 0
  · simp [h]
  · simp [h]

/-- **KL divergence of a vector with itself is (finite and) 0**: every term is `0` or `x · log (x/x)`
with `x ≠ 0`. -/
theorem kl_self (p : List ℝ) : klOf p p = some 0 := by
  unfold klOf
  rw [List.zipWith_self, sumOpt_map _ _ (fun _ => 0) (fun x _ => relEntr_self x)]
  simp

/-! ### Jensen–Shannon -/

/-- the midpoint vector of `jsOf` -/
noncomputable def mid (p q : List ℝ) : List ℝ := List.zipWith (fun a b => (a + b) / 2) p q

theorem mid_comm (p q : List ℝ) : mid p q = mid q p := by
  unfold mid
  rw [List.zipWith_comm_of_comm (fun a b => by rw [add_comm])]

/-- the normalisation step of `jsOf` -/
noncomputable def normalize (p : List ℝ) : List ℝ := p.map (· / p.sum)

/-- the final combination step of `jsOf` -/
noncomputable def jsComb (a b : Option ℝ) : Option ℝ :=
  match a, b with
  | some l, some r => some (Real.sqrt ((l + r) / 2))
  | _, _ => none

theorem jsOf_eq (p q : List ℝ) :
    jsOf p q = jsComb (sumOpt (List.zipWith relEntr (normalize p) (mid (normalize p) (normalize q))))
            (sumOpt (List.zipWith relEntr (normalize q) (mid (normalize p) (normalize q)))) := by
  unfold jsOf normalize mid jsComb
  simp only [sum_eq, RealNum.two_eq, RealNum.sqrt_eq]
  split <;> split <;> simp_all

theorem sum_map_div' (l : List ℝ) (c : ℝ) : (l.map (· / c)).sum = l.sum / c := by
  induction l with
  | nil => simp
  | cons a l ih => simp only [List.map_cons, List.sum_cons, ih]; ring

theorem normalize_isProb {p : List ℝ} (hp : ∀ x ∈ p, 0 ≤ x) (hs : 0 < p.sum) : IsProb (normalize p) := by
  refine ⟨?_, ?_⟩
  · intro x hx
    obtain ⟨y, hy, rfl⟩ := List.mem_map.mp hx
    exact div_nonneg (hp y hy) hs.le
  · unfold normalize
    rw [sum_map_div', div_self hs.ne']

theorem zipWith_relEntr_mid (p q : List ℝ) :
    List.zipWith relEntr p (mid p q) = (List.zip p q).map (fun x => relEntr x.1 ((x.1 + x.2) / 2)) := by
  unfold mid
  induction p generalizing q with
  | nil => simp
  | cons a p ih => cases q with
    | nil => simp
    | cons b q => simp [ih]

/-- one half of the Jensen–Shannon divergence: `KL(p ‖ (p+q)/2)` is finite, at least
`(Σ' p − Σ' q)/2` (`Σ'` = sum over the zipped part) and at most `log 2 · Σp` -/
theorem kl_mid {p q : List ℝ} (hp : ∀ x ∈ p, 0 ≤ x) (hq : ∀ x ∈ q, 0 ≤ x) :
    ∃ l, sumOpt (List.zipWith relEntr p (mid p q)) = some l ∧
      (((List.zip p q).map Prod.fst).sum - ((List.zip p q).map Prod.snd).sum) / 2 ≤ l ∧
      l ≤ Real.log 2 * p.sum := by
  rw [zipWith_relEntr_mid]
  let g : ℝ × ℝ → ℝ := fun x => if x.1 = 0 then 0 else x.1 * Real.log (x.1 / ((x.1 + x.2) / 2))
  have hg : ∀ x ∈ List.zip p q, relEntr x.1 ((x.1 + x.2) / 2) = some (g x) := by
    rintro ⟨a, b⟩ hab
    have hm := List.of_mem_zip hab
    have ha := hp a hm.1
    have hb := hq b hm.2
    simp only [relEntr_eq, g]
    by_cases h0 : a = 0
    · simp [h0]
    · have : (a + b) / 2 ≠ 0 := by
        have : 0 < a := lt_of_le_of_ne ha (Ne.symm h0)
        positivity
      simp [h0, this]
  refine ⟨_, sumOpt_map _ _ g hg, ?_, ?_⟩
  · have := sum_map_le (List.zip p q) (fun x => x.1 - (1/2) * (x.1 + x.2)) g (by
      rintro ⟨a, b⟩ hab
      have hm := List.of_mem_zip hab
      have ha := hp a hm.1
      have hb := hq b hm.2
      simp only [g]
      by_cases h0 : a = 0
      · simp only [h0, if_true]; linarith
      · have hapos : 0 < a := lt_of_le_of_ne ha (Ne.symm h0)
        simp only [h0, if_false]
        have := gibbs_term hapos (show 0 < (a + b) / 2 by positivity)
        linarith)
    rw [sum_map_sub', sum_map_mul_left', sum_map_add'] at this
    linarith
  · have := sum_map_le (List.zip p q) g (fun x => Real.log 2 * x.1) (by
      rintro ⟨a, b⟩ hab
      have hm := List.of_mem_zip hab
      have ha := hp a hm.1
      have hb := hq b hm.2
      simp only [g]
      by_cases h0 : a = 0
      · simp [h0]
      · have hapos : 0 < a := lt_of_le_of_ne ha (Ne.symm h0)
        simp only [h0, if_false]
        have hm : 0 < (a + b) / 2 := by positivity
        have h1 : Real.log (a / ((a + b) / 2)) ≤ Real.log 2 := by
          apply Real.log_le_log (div_pos hapos hm)
          rw [div_le_iff₀ hm]; linarith
        nlinarith)
    rw [sum_map_mul_left'] at this
    have hlog : 0 ≤ Real.log 2 := Real.log_nonneg (by norm_num)
    have := sum_zip_fst_le (q := q) hp
    nlinarith

/-- **Jensen–Shannon divergence is defined and lies in `[0, log 2]`**: for vectors with non-negative
entries and positive sums the model returns `some (√d)` with `0 ≤ d ≤ log 2` (so the square root is a
genuine one).  Equal lengths are not needed: the two truncation defects `±(Σ'p − Σ'q)/2` cancel in `l + r`. -/
theorem js_divergence_bounds {p q : List ℝ} (hp : ∀ x ∈ p, 0 ≤ x) (hq : ∀ x ∈ q, 0 ≤ x)
    (hsp : 0 < p.sum) (hsq : 0 < q.sum) :
    ∃ d, jsOf p q = some (Real.sqrt d) ∧ 0 ≤ d ∧ d ≤ Real.log 2 := by
  have hP := normalize_isProb hp hsp
  have hQ := normalize_isProb hq hsq
  obtain ⟨l, hl1, hl2, hl3⟩ := kl_mid hP.1 hQ.1
  obtain ⟨r, hr1, hr2, hr3⟩ := kl_mid hQ.1 hP.1
  rw [mid_comm] at hr1
  rw [sum_zip_snd_eq_swap (normalize q) (normalize p), ← sum_zip_snd_eq_swap (normalize p) (normalize q)] at hr2
  simp only [hP.2, hQ.2] at hl3 hr3
  refine ⟨(l + r) / 2, ?_, by linarith, by linarith⟩
  rw [jsOf_eq, hl1, hr1]; rfl

/-- **Jensen–Shannon distance is defined and lies in `[0, √(log 2)]`** (same hypotheses). -/
theorem js_bounds {p q : List ℝ} (hp : ∀ x ∈ p, 0 ≤ x) (hq : ∀ x ∈ q, 0 ≤ x)
    (hsp : 0 < p.sum) (hsq : 0 < q.sum) :
    ∃ v, jsOf p q = some v ∧ 0 ≤ v ∧ v ≤ Real.sqrt (Real.log 2) := by
  obtain ⟨d, h1, _, h3⟩ := js_divergence_bounds hp hq hsp hsq
  exact ⟨_, h1, Real.sqrt_nonneg _, Real.sqrt_le_sqrt h3⟩

example : (∀ x ∈ [(1:ℝ), 3], 0 ≤ x) ∧ (∀ x ∈ [(2:ℝ), 0], 0 ≤ x)
    ∧ 0 < [(1:ℝ), 3].sum ∧ 0 < [(2:ℝ), 0].sum := by
  refine ⟨?_, ?_, ?_, ?_⟩ <;> norm_num

example : (0:ℝ) < [(1:ℝ), 3].sum := by norm_num

/-- **Jensen–Shannon distance is symmetric** (as an `Option`, for all vectors). -/
theorem js_symm (p q : List ℝ) : jsOf p q = jsOf q p := by
  rw [jsOf_eq, jsOf_eq, mid_comm (normalize q) (normalize p)]
  cases sumOpt (List.zipWith relEntr (normalize p) (mid (normalize p) (normalize q))) <;>
  cases sumOpt (List.zipWith relEntr (normalize q) (mid (normalize p) (normalize q))) <;>
  simp [jsComb, add_comm]

theorem mid_self (p : List ℝ) : mid p p = p := by
  unfold mid
  rw [List.zipWith_self]
  conv_rhs => rw [← List.map_id p]
  apply List.map_congr_left
  intro a _; simp

/-- **Jensen–Shannon distance of a vector with itself is 0** when `Σ p ≠ 0` (the hypothesis only excludes
the division by zero in the normalisation; see `js_degenerate_witness`). -/
theorem js_self {p : List ℝ} (_hs : 0 < p.sum) : jsOf p p = some 0 := by
  rw [jsOf_eq, mid_self, List.zipWith_self, sumOpt_map _ _ (fun _ => 0) (fun x _ => relEntr_self x)]
  simp [jsComb]

/-- **Degenerate input of `jsOf`**: for all-zero vectors (what the binned histogram of an empty range
produces) the normalisation divides by `Σ p = 0`.  At `ℝ` (with Lean's `x / 0 = 0`) the model returns
`some 0`; this value is an artefact of the totalised division — in IEEE arithmetic every normalised
entry is `0/0 = NaN` and scipy returns `nan`.  See `js_degenerate_div` for the carrier-independent
statement that the normalised entries are `0 / (0 + 0)`. -/
theorem js_degenerate_witness (n : Nat) : jsOf (List.replicate n (0:ℝ)) (List.replicate n 0) = some 0 := by
  rw [jsOf_eq, mid_self, List.zipWith_self, sumOpt_map _ _ (fun _ => 0) (fun x _ => relEntr_self x)]
  simp [jsComb]

/-- carrier-independent form of the degenerate case (holds for IEEE doubles): on `[0]`, `[0]` the model
evaluates `relEntr d ((d + d) / 2)` with `d = 0 / (0 + 0)`. -/
theorem js_degenerate_div {α : Type} [Num α] :
    jsOf [(Num.zero : α)] [Num.zero] =
      (let d : α := Num.zero / (Num.zero + Num.zero)
       let m : α := (d + d) / Num.two
       match sumOpt [relEntr d m], sumOpt [relEntr d m] with
       | some l, some r => some (Num.sqrt ((l + r) / Num.two))
       | _, _ => none) := rfl

/-! ## C. Transport distances (EMD / energy) -/

/-- `|U(z) − V(z)|`: absolute difference of the two empirical cdfs at `z` -/
noncomputable def cdfDiff (u v : List ℝ) (z : ℝ) : ℝ :=
  |(countLe u z : ℝ) / u.length - (countLe v z : ℝ) / v.length|

/-- the `p`-th power used by `cdfDistance` (`p = 1`: identity, otherwise the square) -/
noncomputable def wt (p : Nat) (d : ℝ) : ℝ := if p = 1 then d else d * d

theorem wt_nonneg (p : Nat) {d : ℝ} (hd : 0 ≤ d) : 0 ≤ wt p d := by
  unfold wt; split
  · exact hd
  · exact mul_nonneg hd hd

theorem cdfDistance_eq (p : Nat) (u v : List ℝ) :
    cdfDistance p u v =
      ((pairs (Hist.sort (u ++ v))).map (fun x => wt p (cdfDiff u v x.1) * (x.2 - x.1))).sum := by
  unfold cdfDistance pairs
  rw [sum_eq, zipWith_eq_map_zip]
  simp [wt, cdfDiff]

theorem cdfDiff_nonneg (u v : List ℝ) (z : ℝ) : 0 ≤ cdfDiff u v z := abs_nonneg _
theorem cdfDiff_comm (u v : List ℝ) (z : ℝ) : cdfDiff u v z = cdfDiff v u z := abs_sub_comm _ _
theorem cdfDiff_self (u : List ℝ) (z : ℝ) : cdfDiff u u z = 0 := by simp [cdfDiff]

/-- `cdfDistance` is a sum of non-negative terms: the pooled sample is sorted, so every gap is `≥ 0`. -/
theorem cdfDistance_nonneg (p : Nat) (u v : List ℝ) : 0 ≤ cdfDistance p u v := by
  rw [cdfDistance_eq]
  apply sum_map_nonneg
  intro x hx
  have := pairs_rel (sort_pairwise (u ++ v)) x hx
  exact mul_nonneg (wt_nonneg p (cdfDiff_nonneg u v x.1)) (by linarith)

theorem cdfDistance_symm (p : Nat) (u v : List ℝ) : cdfDistance p u v = cdfDistance p v u := by
  rw [cdfDistance_eq, cdfDistance_eq, sort_congr (List.perm_append_comm : (u ++ v).Perm (v ++ u))]
  apply sum_map_congr
  intro x _
  rw [cdfDiff_comm]

theorem cdfDistance_self (p : Nat) (u : List ℝ) : cdfDistance p u u = 0 := by
  rw [cdfDistance_eq]
  apply sum_map_eq_zero
  intro x _
  simp [cdfDiff_self, wt]

/-- **EMD is non-negative** (samples non-empty, so that the empirical cdfs are genuine quotients). -/
theorem emd_nonneg {u v : List ℝ} (_hu : u ≠ []) (_hv : v ≠ []) : 0 ≤ emd u v := cdfDistance_nonneg 1 u v
/-- **EMD is symmetric**. -/
theorem emd_symm {u v : List ℝ} (_hu : u ≠ []) (_hv : v ≠ []) : emd u v = emd v u := cdfDistance_symm 1 u v
/-- **EMD of a sample with itself is 0**. -/
theorem emd_self {u : List ℝ} (_hu : u ≠ []) : emd u u = 0 := cdfDistance_self 1 u

theorem energy_eq (u v : List ℝ) : energy u v = Real.sqrt (2 * cdfDistance 2 u v) := by
  unfold energy; simp

/-- **Energy distance is non-negative**; moreover the radicand `2·Σ…` is itself non-negative, so the
square root is a genuine one. -/
theorem energy_nonneg {u v : List ℝ} (_hu : u ≠ []) (_hv : v ≠ []) :
    0 ≤ energy u v ∧ 0 ≤ 2 * cdfDistance 2 u v := by
  rw [energy_eq]
  exact ⟨Real.sqrt_nonneg _, by linarith [cdfDistance_nonneg 2 u v]⟩
/-- **Energy distance is symmetric**. -/
theorem energy_symm {u v : List ℝ} (_hu : u ≠ []) (_hv : v ≠ []) : energy u v = energy v u := by
  rw [energy_eq, energy_eq, cdfDistance_symm]
/-- **Energy distance of a sample with itself is 0**. -/
theorem energy_self {u : List ℝ} (_hu : u ≠ []) : energy u u = 0 := by
  rw [energy_eq, cdfDistance_self]; simp

example : ([(1:ℝ), 2] ≠ []) ∧ ([(0:ℝ), 5, 7] ≠ []) := by simp

/-- sanity instance (the distance is not identically zero): `emd [0] [1] = 1` -/
example : emd [(0:ℝ)] [1] = 1 := by
  simp [emd, cdfDistance, Hist.sort, insertSorted, countLe, Hist.sum]

/-! ### affine maps -/

theorem countLe_map_of_mono {f : ℝ → ℝ} (hf : ∀ x y, f x ≤ f y ↔ x ≤ y) (u : List ℝ) (z : ℝ) :
    countLe (u.map f) (f z) = countLe u z := by
  unfold countLe
  rw [List.filter_map, List.length_map]
  congr 1
  apply List.filter_congr
  intro x _
  simp only [Function.comp]
  rw [Bool.eq_iff_iff, RealNum.le_iff, RealNum.le_iff]
  exact hf x z

/-- sorting commutes with maps that preserve and reflect `≤` -/
theorem sort_map_of_mono {f : ℝ → ℝ} (hf : ∀ x y, f x ≤ f y ↔ x ≤ y) (l : List ℝ) :
    Hist.sort (l.map f) = (Hist.sort l).map f := by
  rw [sort_eq, sort_eq]
  exact (List.map_insertionSort (r := (· ≤ ·)) (s := (· ≤ ·)) f l (fun a _ b _ => (hf a b).symm)).symm

theorem cdfDiff_map_of_mono {f : ℝ → ℝ} (hf : ∀ x y, f x ≤ f y ↔ x ≤ y) (u v : List ℝ) (z : ℝ) :
    cdfDiff (u.map f) (v.map f) (f z) = cdfDiff u v z := by
  unfold cdfDiff
  rw [countLe_map_of_mono hf, countLe_map_of_mono hf, List.length_map, List.length_map]

theorem affine_le_iff {a : ℝ} (ha : 0 < a) (b x y : ℝ) : a * x + b ≤ a * y + b ↔ x ≤ y := by
  constructor
  · intro h; exact le_of_mul_le_mul_left (by linarith) ha
  · intro h; nlinarith

/-- `cdfDistance` scales linearly under an increasing affine map of both samples -/
theorem cdfDistance_scale (p : Nat) {a : ℝ} (ha : 0 < a) (b : ℝ) (u v : List ℝ) :
    cdfDistance p (u.map (fun x => a * x + b)) (v.map (fun x => a * x + b)) = a * cdfDistance p u v := by
  have hf := affine_le_iff ha b
  rw [cdfDistance_eq, cdfDistance_eq, ← List.map_append, sort_map_of_mono hf, pairs_map, List.map_map,
    ← sum_map_mul_left']
  apply sum_map_congr
  intro x _
  simp only [Function.comp, Prod.map]
  rw [cdfDiff_map_of_mono (f := fun x => a * x + b) hf]
  ring

/-- sanity instance of the scaling law: `emd [3] [5] = 2 · emd [0] [1]` with `a = 2`, `b = 3` -/
example : emd ([(0:ℝ)].map (fun x => 2 * x + 3)) ([(1:ℝ)].map (fun x => 2 * x + 3)) = 2 := by
  simp [emd, cdfDistance, Hist.sort, insertSorted, countLe, Hist.sum]

/-- **EMD scales by `a` under `x ↦ a·x + b`, `a > 0`** (in particular it is translation invariant). -/
theorem emd_scale {a : ℝ} (ha : 0 < a) (b : ℝ) {u v : List ℝ} (_hu : u ≠ []) (_hv : v ≠ []) :
    emd (u.map (fun x => a * x + b)) (v.map (fun x => a * x + b)) = a * emd u v :=
  cdfDistance_scale 1 ha b u v

/-- **Energy distance scales by `√a` under `x ↦ a·x + b`, `a > 0`**. -/
theorem energy_scale {a : ℝ} (ha : 0 < a) (b : ℝ) {u v : List ℝ} (_hu : u ≠ []) (_hv : v ≠ []) :
    energy (u.map (fun x => a * x + b)) (v.map (fun x => a * x + b)) = Real.sqrt a * energy u v := by
  rw [energy_eq, energy_eq, cdfDistance_scale 2 ha b u v, ← Real.sqrt_mul ha.le]
  congr 1; ring

/-! ### decreasing affine maps (`a < 0`): the reversal argument -/

theorem affine_neg_le_iff {a : ℝ} (ha : a < 0) (b x y : ℝ) : a * x + b ≤ a * y + b ↔ y ≤ x := by
  constructor
  · intro h; by_contra hc; rw [not_le] at hc; nlinarith
  · intro h; nlinarith

/-- sorting after an order-reversing map: reverse of the mapped sorted list -/
theorem sort_map_of_anti {f : ℝ → ℝ} (hf : ∀ x y, f x ≤ f y ↔ y ≤ x) (l : List ℝ) :
    Hist.sort (l.map f) = ((Hist.sort l).map f).reverse := by
  symm
  apply eq_sort_of_pairwise
  · rw [List.pairwise_reverse, List.pairwise_map]
    exact (sort_pairwise l).imp (fun h => (hf _ _).mpr h)
  · exact (List.reverse_perm _).trans ((sort_perm l).map f)

/-- for consecutive `z < z'` of the sorted pooled sample, counting `≥ z'` is the complement of counting `≤ z` -/
theorem countLe_anti {f : ℝ → ℝ} (hf : ∀ x y, f x ≤ f y ↔ y ≤ x) (u : List ℝ) {z z' : ℝ} (hzz : z < z')
    (hb : ∀ y ∈ u, y ≤ z ∨ z' ≤ y) :
    (countLe (u.map f) (f z') : ℝ) = u.length - countLe u z := by
  have h1 : countLe (u.map f) (f z') = (u.filter (fun x => !(Num.le x z))).length := by
    unfold countLe
    rw [List.filter_map, List.length_map]
    congr 1
    apply List.filter_congr
    intro x hx
    simp only [Function.comp]
    rw [Bool.eq_iff_iff, RealNum.le_iff, hf]
    simp only [Bool.not_eq_true', RealNum.le_false_iff]
    rcases hb x hx with h | h
    · exact ⟨fun c => absurd (lt_of_lt_of_le hzz (c.trans h)) (lt_irrefl _), fun c => absurd h c⟩
    · exact ⟨fun _ => by linarith, fun _ => h⟩
  have h2 := List.length_eq_length_filter_add (l := u) (fun x => Num.le x z)
  rw [h1]
  unfold countLe
  rw [h2]; push_cast; ring

theorem cdfDiff_anti {f : ℝ → ℝ} (hf : ∀ x y, f x ≤ f y ↔ y ≤ x) {u v : List ℝ} (hu : u ≠ []) (hv : v ≠ [])
    {z z' : ℝ} (hzz : z < z') (hbu : ∀ y ∈ u, y ≤ z ∨ z' ≤ y) (hbv : ∀ y ∈ v, y ≤ z ∨ z' ≤ y) :
    cdfDiff (u.map f) (v.map f) (f z') = cdfDiff u v z := by
  unfold cdfDiff
  rw [countLe_anti hf u hzz hbu, countLe_anti hf v hzz hbv, List.length_map, List.length_map]
  have hul : (u.length : ℝ) ≠ 0 := by exact_mod_cast (List.length_pos_iff.mpr hu).ne'
  have hvl : (v.length : ℝ) ≠ 0 := by exact_mod_cast (List.length_pos_iff.mpr hv).ne'
  rw [sub_div, sub_div, div_self hul, div_self hvl, ← abs_neg]
  congr 1; ring

/-- `cdfDistance` under a decreasing affine map of both (non-empty) samples scales by `−a = |a|` -/
theorem cdfDistance_scale_neg (p : Nat) {a : ℝ} (ha : a < 0) (b : ℝ) {u v : List ℝ} (hu : u ≠ []) (hv : v ≠ []) :
    cdfDistance p (u.map (fun x => a * x + b)) (v.map (fun x => a * x + b)) = -a * cdfDistance p u v := by
  have hf := affine_neg_le_iff ha b
  rw [cdfDistance_eq, cdfDistance_eq, ← List.map_append, sort_map_of_anti hf,
    ((pairs_reverse_perm _).map _).sum_eq, pairs_map, List.map_map, List.map_map, ← sum_map_mul_left']
  apply sum_map_congr
  intro x hx
  simp only [Function.comp, Prod.map, Prod.swap]
  have hle := pairs_rel (sort_pairwise (u ++ v)) x hx
  rcases eq_or_lt_of_le hle with heq | hlt
  · rw [heq]; ring
  · have hnb := pairs_no_between (sort_pairwise (u ++ v)) x hx
    rw [cdfDiff_anti (f := fun x => a * x + b) hf hu hv hlt
      (fun y hy => hnb y (mem_sort.mpr (List.mem_append_left _ hy)))
      (fun y hy => hnb y (mem_sort.mpr (List.mem_append_right _ hy)))]
    ring

/-- **EMD under `x ↦ a·x + b` with `a < 0` scales by `−a = |a|`** (reflection reverses the sorted pooled
sample and turns `≤`-counts into `≥`-counts; non-emptiness is really needed here: `(n − c)/n = 1 − c/n`). -/
theorem emd_scale_neg {a : ℝ} (ha : a < 0) (b : ℝ) {u v : List ℝ} (hu : u ≠ []) (hv : v ≠ []) :
    emd (u.map (fun x => a * x + b)) (v.map (fun x => a * x + b)) = -a * emd u v :=
  cdfDistance_scale_neg 1 ha b hu hv

/-- **Energy distance under `x ↦ a·x + b` with `a < 0` scales by `√(−a)`**. -/
theorem energy_scale_neg {a : ℝ} (ha : a < 0) (b : ℝ) {u v : List ℝ} (hu : u ≠ []) (hv : v ≠ []) :
    energy (u.map (fun x => a * x + b)) (v.map (fun x => a * x + b)) = Real.sqrt (-a) * energy u v := by
  rw [energy_eq, energy_eq, cdfDistance_scale_neg 2 ha b hu hv, ← Real.sqrt_mul (by linarith)]
  congr 1; ring

/-- **EMD and energy distance for every non-zero scale**: factor `|a|`, resp. `√|a|`. -/
theorem emd_scale_abs {a : ℝ} (ha : a ≠ 0) (b : ℝ) {u v : List ℝ} (hu : u ≠ []) (hv : v ≠ []) :
    emd (u.map (fun x => a * x + b)) (v.map (fun x => a * x + b)) = |a| * emd u v := by
  rcases lt_or_gt_of_ne ha with h | h
  · rw [emd_scale_neg h b hu hv, abs_of_neg h]
  · rw [emd_scale h b hu hv, abs_of_pos h]

theorem energy_scale_abs {a : ℝ} (ha : a ≠ 0) (b : ℝ) {u v : List ℝ} (hu : u ≠ []) (hv : v ≠ []) :
    energy (u.map (fun x => a * x + b)) (v.map (fun x => a * x + b)) = Real.sqrt |a| * energy u v := by
  rcases lt_or_gt_of_ne ha with h | h
  · rw [energy_scale_neg h b hu hv, abs_of_neg h]
  · rw [energy_scale h b hu hv, abs_of_pos h]

/-! ## B. Binning -/

/-- **Every sample element falls in exactly one bin**: for (weakly, in particular strictly) increasing
edges `es` with at least two edges and a sample `a` inside `[es.head, es.last]`, the counts of
`np.histogram(a, bins=es)` sum to `a.length`. -/
theorem counts_sum {es a : List ℝ} (hs : es.Pairwise (· ≤ ·)) (hlen : 2 ≤ es.length)
    (ha : ∀ x ∈ a, es.head (List.ne_nil_of_length_pos (by omega)) ≤ x ∧
                   x ≤ es.getLast (List.ne_nil_of_length_pos (by omega))) :
    (counts es a).sum = a.length := by
  have hne : es ≠ [] := List.ne_nil_of_length_pos (by omega)
  have hhead : es.head hne = es.getD 0 0 := by
    rw [List.getD_eq_getElem _ _ (by omega : 0 < es.length), List.head_eq_getElem]
  have hlast : es.getLast hne = es.getD (es.length - 1) 0 := by
    rw [List.getD_eq_getElem _ _ (by omega : es.length - 1 < es.length), List.getLast_eq_getElem]
  induction a with
  | nil => exact counts_nil es
  | cons x a ih =>
    rw [counts_cons_sum, ih (fun y hy => ha y (List.mem_cons_of_mem _ hy))]
    have hx := ha x (by simp)
    rw [hhead, hlast] at hx
    rw [ind_sum_inBin hs hlen hx.1 hx.2]
    simp

/-- the same for strictly increasing edges (the form in which numpy builds them) -/
theorem counts_sum_of_strict {es a : List ℝ} (hs : es.Pairwise (· < ·)) (hlen : 2 ≤ es.length)
    (ha : ∀ x ∈ a, es.head (List.ne_nil_of_length_pos (by omega)) ≤ x ∧
                   x ≤ es.getLast (List.ne_nil_of_length_pos (by omega))) :
    (counts es a).sum = a.length :=
  counts_sum (hs.imp le_of_lt) hlen ha

example : ([(0:ℝ), 1, 2].Pairwise (· < ·)) ∧ 2 ≤ [(0:ℝ), 1, 2].length ∧
    ∀ x ∈ [(0:ℝ), 1/2, 2, 1], [(0:ℝ), 1, 2].head (by simp) ≤ x ∧ x ≤ [(0:ℝ), 1, 2].getLast (by simp) := by
  refine ⟨by simp, by simp, ?_⟩
  intro x hx
  simp only [List.mem_cons, List.not_mem_nil, or_false] at hx
  rcases hx with rfl | rfl | rfl | rfl <;> norm_num

/-- **Counts are invariant under permutation of the sample** (all carriers of edges at ℝ). -/
theorem counts_perm (es : List ℝ) {a a' : List ℝ} (h : a.Perm a') : counts es a = counts es a' :=
  counts_perm' es h

theorem sum_map_natCast_div (l : List Nat) (n : ℝ) : (l.map (fun (c : Nat) => (c : ℝ) / n)).sum = ((l.sum : Nat) : ℝ) / n := by
  induction l with
  | nil => simp
  | cons a l ih => simp only [List.map_cons, List.sum_cons, ih]; push_cast; ring

/-- proportions of a non-empty sample on edges enclosing it form a probability vector -/
theorem proportions_isProb {es a : List ℝ} (hs : es.Pairwise (· ≤ ·)) (hlen : 2 ≤ es.length)
    (ha : ∀ x ∈ a, es.head (List.ne_nil_of_length_pos (by omega)) ≤ x ∧
                   x ≤ es.getLast (List.ne_nil_of_length_pos (by omega)))
    (hne : a ≠ []) : IsProb ((counts es a).map (fun (c : Nat) => (c : ℝ) / (a.length : ℝ))) := by
  have hpos : (0 : ℝ) < a.length := by exact_mod_cast List.length_pos_iff.mpr hne
  refine ⟨?_, ?_⟩
  · intro x hx
    obtain ⟨c, _, rfl⟩ := List.mem_map.mp hx
    positivity
  · rw [sum_map_natCast_div, counts_sum hs hlen ha, div_self hpos.ne']

theorem binsValues_eq (xref x : List ℝ) (nb : Nat) :
    binsValues xref x nb =
      ((counts (edges (xref ++ x) nb) xref).map (fun (c : Nat) => (c : ℝ) / (xref.length : ℝ)),
       (counts (edges (xref ++ x) nb) x).map (fun (c : Nat) => (c : ℝ) / (x.length : ℝ))) := by
  unfold binsValues
  simp only [RealNum.ofNat_eq]

/-- **The binned proportions are probability vectors of equal length** for non-empty samples and at least
one bin.  No non-degeneracy hypothesis on the pooled range is needed: the model (like numpy) widens a
degenerate range `lo = hi` to `[lo − 0.5, hi + 0.5]`, so the edges are always strictly increasing. -/
theorem binsValues_isProb {xref x : List ℝ} (hr : xref ≠ []) (hx : x ≠ []) (nb : Nat) :
    IsProb (binsValues xref x (nb + 1)).1 ∧ IsProb (binsValues xref x (nb + 1)).2 ∧
      (binsValues xref x (nb + 1)).1.length = (binsValues xref x (nb + 1)).2.length := by
  have hp : xref ++ x ≠ [] := by simp [hr]
  obtain ⟨h1, h2, h3⟩ := edges_spec hp nb
  have hlen : 2 ≤ (edges (xref ++ x) (nb + 1)).length := by omega
  have hne : edges (xref ++ x) (nb + 1) ≠ [] := List.ne_nil_of_length_pos (by omega)
  have hhead : (edges (xref ++ x) (nb + 1)).head hne = (edges (xref ++ x) (nb + 1)).getD 0 0 := by
    rw [List.getD_eq_getElem _ _ (by omega), List.head_eq_getElem]
  have hlast : (edges (xref ++ x) (nb + 1)).getLast hne = (edges (xref ++ x) (nb + 1)).getD (nb + 1) 0 := by
    rw [List.getD_eq_getElem _ _ (by omega), List.getLast_eq_getElem]
    congr 1; omega
  rw [binsValues_eq]
  refine ⟨proportions_isProb (h2.imp le_of_lt) hlen ?_ hr, proportions_isProb (h2.imp le_of_lt) hlen ?_ hx, ?_⟩
  · intro y hy
    rw [hhead, hlast]
    exact h3 y (List.mem_append_left _ hy)
  · intro y hy
    rw [hhead, hlast]
    exact h3 y (List.mem_append_right _ hy)
  · simp [counts_length]

/-- **At least one bin is necessary**: with `num_bins = 0` the model produces empty proportion vectors
(numpy raises instead), and the Bhattacharyya "distance" of a sample with itself is `1`. -/
theorem zero_bins_witness : bhattacharyya [(0:ℝ)] [(0:ℝ)] 0 = 1 := by
  have h : binsValues [(0:ℝ)] [(0:ℝ)] 0 = ([], []) := by
    rw [binsValues_eq]
    have : (edges ([(0:ℝ)] ++ [0]) 0).length = 1 := by simp [edges, linspace]
    rw [counts_eq, this]; simp
  unfold bhattacharyya
  rw [h]
  simp [bhattacharyyaOf, Hist.sum]

theorem hellinger_def (xref x : List ℝ) (nb : Nat) :
    hellinger xref x nb = hellingerOf (binsValues xref x nb).1 (binsValues xref x nb).2 := rfl
theorem bhattacharyya_def (xref x : List ℝ) (nb : Nat) :
    bhattacharyya xref x nb = bhattacharyyaOf (binsValues xref x nb).1 (binsValues xref x nb).2 := rfl
theorem hi_def (xref x : List ℝ) (nb : Nat) :
    hi xref x nb = hiOf (binsValues xref x nb).1 (binsValues xref x nb).2 := rfl
theorem psi_def (floor : ℝ) (xref x : List ℝ) (nb : Nat) :
    psi floor xref x nb = psiOf floor (binsValues xref x nb).1 (binsValues xref x nb).2 := rfl

/-- **Binned Hellinger distance of two non-empty samples lies in `[0,1]`**. -/
theorem hellinger_binned_mem_Icc {xref x : List ℝ} (hr : xref ≠ []) (hx : x ≠ []) (nb : Nat) :
    0 ≤ hellinger xref x (nb + 1) ∧ hellinger xref x (nb + 1) ≤ 1 := by
  obtain ⟨h1, h2, _⟩ := binsValues_isProb hr hx nb
  rw [hellinger_def]; exact hellinger_mem_Icc h1 h2

/-- **Binned Bhattacharyya distance of two non-empty samples lies in `[0,1]`**. -/
theorem bhattacharyya_binned_mem_Icc {xref x : List ℝ} (hr : xref ≠ []) (hx : x ≠ []) (nb : Nat) :
    0 ≤ bhattacharyya xref x (nb + 1) ∧ bhattacharyya xref x (nb + 1) ≤ 1 := by
  obtain ⟨h1, h2, _⟩ := binsValues_isProb hr hx nb
  rw [bhattacharyya_def]; exact bhatt_mem_Icc h1 h2

/-- **Binned histogram-intersection complement of two non-empty samples lies in `[0,1]`**. -/
theorem hi_binned_mem_Icc {xref x : List ℝ} (hr : xref ≠ []) (hx : x ≠ []) (nb : Nat) :
    0 ≤ hi xref x (nb + 1) ∧ hi xref x (nb + 1) ≤ 1 := by
  obtain ⟨h1, h2, _⟩ := binsValues_isProb hr hx nb
  rw [hi_def]; exact hi_mem_Icc h1 h2

/-- **Binned PSI of two non-empty samples is non-negative** for every positive `floor`. -/
theorem psi_binned_nonneg {floor : ℝ} (hf : 0 < floor) {xref x : List ℝ} (hr : xref ≠ []) (hx : x ≠ []) (nb : Nat) :
    0 ≤ psi floor xref x (nb + 1) := by
  obtain ⟨h1, h2, _⟩ := binsValues_isProb hr hx nb
  rw [psi_def]; exact psi_nonneg hf h1.1 h2.1

example : ([(1:ℝ), 2, 3] ≠ []) ∧ ([(2:ℝ), 2] ≠ []) := by simp

/-- the binned proportions only depend on the samples up to permutation -/
theorem binsValues_perm {xref xref' x x' : List ℝ} (hr : xref.Perm xref') (hx : x.Perm x') (nb : Nat) :
    binsValues xref x nb = binsValues xref' x' nb := by
  rw [binsValues_eq, binsValues_eq, edges_perm (hr.append hx), counts_perm _ hr, counts_perm _ hx,
    hr.length_eq, hx.length_eq]

/-- **All four binned distances are invariant under permutation of each sample.** -/
theorem binned_perm {xref xref' x x' : List ℝ} (hr : xref.Perm xref') (hx : x.Perm x') (nb : Nat) (floor : ℝ) :
    psi floor xref x nb = psi floor xref' x' nb ∧ hellinger xref x nb = hellinger xref' x' nb ∧
    bhattacharyya xref x nb = bhattacharyya xref' x' nb ∧ hi xref x nb = hi xref' x' nb := by
  simp only [psi_def, hellinger_def, bhattacharyya_def, hi_def, binsValues_perm hr hx nb, and_self]

theorem countLe_perm {u u' : List ℝ} (h : u.Perm u') (z : ℝ) : countLe u z = countLe u' z := by
  unfold countLe
  exact (h.filter _).length_eq

/-- **`cdfDistance` (hence EMD and energy distance) is invariant under permutation of each sample.** -/
theorem cdfDistance_perm (p : Nat) {u u' v v' : List ℝ} (hu : u.Perm u') (hv : v.Perm v') :
    cdfDistance p u v = cdfDistance p u' v' := by
  rw [cdfDistance_eq, cdfDistance_eq, sort_congr (hu.append hv)]
  apply sum_map_congr
  intro x _
  unfold cdfDiff
  rw [countLe_perm hu, countLe_perm hv, hu.length_eq, hv.length_eq]

theorem emd_perm {u u' v v' : List ℝ} (hu : u.Perm u') (hv : v.Perm v') : emd u v = emd u' v' :=
  cdfDistance_perm 1 hu hv
theorem energy_perm {u u' v v' : List ℝ} (hu : u.Perm u') (hv : v.Perm v') : energy u v = energy u' v' := by
  rw [energy_eq, energy_eq, cdfDistance_perm 2 hu hv]

/-- the binned proportions are symmetric in the two samples (the pooled range is the same) -/
theorem binsValues_swap (xref x : List ℝ) (nb : Nat) :
    binsValues x xref nb = ((binsValues xref x nb).2, (binsValues xref x nb).1) := by
  rw [binsValues_eq, binsValues_eq, edges_perm (List.perm_append_comm : (x ++ xref).Perm (xref ++ x))]

/-- **The binned Hellinger, Bhattacharyya and HI distances are symmetric in the two samples**; PSI too for
positive `floor` (non-empty samples, so that the proportions are genuine quotients). -/
theorem binned_symm {floor : ℝ} (hf : 0 < floor) {xref x : List ℝ} (hr : xref ≠ []) (hx : x ≠ []) (nb : Nat) :
    psi floor xref x (nb + 1) = psi floor x xref (nb + 1) ∧ hellinger xref x (nb + 1) = hellinger x xref (nb + 1) ∧
    bhattacharyya xref x (nb + 1) = bhattacharyya x xref (nb + 1) ∧ hi xref x (nb + 1) = hi x xref (nb + 1) := by
  obtain ⟨h1, h2, _⟩ := binsValues_isProb hr hx nb
  simp only [psi_def, hellinger_def, bhattacharyya_def, hi_def, binsValues_swap xref x]
  exact ⟨psi_symm hf h1.1 h2.1, hellinger_symm _ _, bhatt_symm _ _, hi_symm _ _⟩

/-- **Binned distance of a (non-empty) sample with itself is 0**, for all four histogram distances. -/
theorem binned_self {floor : ℝ} (hf : 0 < floor) {x : List ℝ} (hx : x ≠ []) (nb : Nat) :
    psi floor x x (nb + 1) = 0 ∧ hellinger x x (nb + 1) = 0 ∧ bhattacharyya x x (nb + 1) = 0 ∧ hi x x (nb + 1) = 0 := by
  obtain ⟨h1, _, _⟩ := binsValues_isProb hx hx nb
  have hsame : (binsValues x x (nb + 1)).2 = (binsValues x x (nb + 1)).1 := by rw [binsValues_eq]
  simp only [psi_def, hellinger_def, bhattacharyya_def, hi_def, hsame]
  exact ⟨psi_self hf h1.1, hellinger_self _, bhatt_self h1, hi_self h1.2⟩

/-! ### carrier-independent bookkeeping (holds literally for IEEE doubles) -/

/-- one count per bin, for every carrier -/
theorem counts_length_any {α : Type} [Num α] (es a : List α) : (counts es a).length = es.length - 1 := by
  simp [counts]

/-- both proportion vectors have one entry per bin, for every carrier -/
theorem binsValues_length_any {α : Type} [Num α] (xref x : List α) (nb : Nat) :
    (binsValues xref x nb).1.length = (edges (xref ++ x) nb).length - 1 ∧
    (binsValues xref x nb).2.length = (edges (xref ++ x) nb).length - 1 := by
  simp [binsValues, counts_length_any]

end Frouros.C10

section Axioms
open Frouros.C10
#print axioms hellinger_mem_Icc
#print axioms hellinger_symm
#print axioms hellinger_self
#print axioms hellingerOf_eq_sqrt_one_sub_bc
#print axioms bhatt_mem_Icc
#print axioms bhatt_symm
#print axioms bhatt_self
#print axioms hi_mem_Icc
#print axioms hi_symm
#print axioms hi_self
#print axioms psi_nonneg
#print axioms psi_symm
#print axioms psi_self
#print axioms kl_nonneg
#print axioms kl_self
#print axioms kl_unequal_length_witness
#print axioms js_divergence_bounds
#print axioms js_bounds
#print axioms js_symm
#print axioms js_self
#print axioms js_degenerate_witness
#print axioms js_degenerate_div
#print axioms counts_sum
#print axioms counts_sum_of_strict
#print axioms counts_perm
#print axioms binsValues_isProb
#print axioms hellinger_binned_mem_Icc
#print axioms bhattacharyya_binned_mem_Icc
#print axioms hi_binned_mem_Icc
#print axioms psi_binned_nonneg
#print axioms binned_perm
#print axioms binned_symm
#print axioms binned_self
#print axioms zero_bins_witness
#print axioms cdfDistance_perm
#print axioms emd_perm
#print axioms energy_perm
#print axioms emd_nonneg
#print axioms emd_symm
#print axioms emd_self
#print axioms energy_nonneg
#print axioms energy_symm
#print axioms energy_self
#print axioms emd_scale
#print axioms energy_scale
#print axioms emd_scale_neg
#print axioms energy_scale_neg
#print axioms emd_scale_abs
#print axioms energy_scale_abs
#print axioms counts_length_any
#print axioms binsValues_length_any
end Axioms
