/-
  C08c — discharging `LSESpec`: the max-shifted `logsumexp` routine that the model executes is exact over ℝ.

  Every arithmetic theorem of `Props/C08.lean` assumes `LSESpec f` (`f.logSumExp l = log Σ exp l_i` on non-empty
  lists) for the abstract field `Fns.logSumExp`.  The routine that is actually executed is
  `Frouros.Ext.logSumExp` (`FrourosModel/Ext.lean:71-75`, a transcription of scipy's max-shifted `logsumexp`);
  it is written at `Float` only, because it uses two primitives that are not part of `Num`: the literal
  `-(1.0/0.0)` (= `-inf`) and `Float.isFinite`.

  * `lseShift E a` is the SAME program text for an arbitrary carrier `[Num α]`, the three `Float`-only
    ingredients (`-inf`, `isFinite`, the literal `0.0`) being supplied by `E : ExtPrims α`.
    `lseShift_float` proves (kernel-checked, no evaluation needed) that at `α = Float` with the obvious `E`
    it IS `Ext.logSumExp`.
  * `lseShift_spec`: over ℝ, for EVERY choice of the `-inf` stand-in and of `isFinite` (and `E.zero = 0`),
    `lseShift E l = Real.log (Σ exp l_i)` for every non-empty `l` — the shift cancels whatever it is.
    Hence `LSESpec (shiftFns E logC)` (`lseSpec_shiftFns`) and all C08 theorems hold unconditionally for the
    model's own routine (`*_lse` corollaries, §3).
  * How `-inf` is represented.  In the ℝ instance of the model there is NO `-inf`: `State ℝ` holds lists of real
    numbers, `LSESpec` quantifies over `List ℝ`, and the only place where the routine itself manufactures `-inf`
    is the start value of the running maximum, which is the parameter `E.negInf` (any real; it cancels).
    `-inf` ENTRIES exist only at `Float` (underflow of `log`, padding of old rows in Python).  They are treated in
    §4 on the carrier `WithBot ℝ` (`⊥ = -inf`): `lseBot` is the same routine with `exp ⊥ = 0`, `log 0 = ⊥`;
    `lseBot_spec` shows `lseBot a = log Σ exp a_i` in that extended sense for EVERY list (also empty / all `-inf`,
    where the value is `-inf`), `lseBot_coe` that it restricts to `lseShift` on finite entries, and
    `lseBot_filter` that `-inf` entries are simply ignored.
  * `lseShift_shift_is_max`, `lseShift_sum_bounds` (§2): when the `-inf` stand-in is below all entries and the
    maximum is declared finite, the shift is the maximum of the list, every exponent is `≤ 0` and the summed
    quantity lies in `[1, length]` — the reason for the shift (no overflow), invisible in the value.
  * C08n (normalised message, `BOCD.step` ends with `logMessage := row`): the `*_lse` corollaries that mention the
    message (`message_forward_lse`, `message_eq_joint_lse`, `evidence_eq_joint_lse`) carry the restated texts of
    `Props/C08.lean`; new `message_normalised_lse`, `sim_run_lse`, `run_logMessage_eq_row` (every carrier),
    `sim_history` (the repair is invisible in every field but the message after ANY history).
  * §5: further items of review C08 §4 — history normal form, `argmax` bound (every carrier), MAP rule in
    posterior terms, Bayes' identity for the conjugate Gaussian update (prior × likelihood = predictive ×
    posterior, pointwise).
-/
import FrourosModel.Ext
import FrourosModel.Dets
import FrourosProofs.RealNum
import FrourosProofs.Machines
import FrourosProofs.Props.C07
import FrourosProofs.Props.C08
import Mathlib.Tactic

namespace Frouros.C08
open Frouros BOCD

/-! ## 1. The executed routine, carrier-generic -/

/-- the three ingredients of `Ext.logSumExp` that are not operations of `Num` -/
structure ExtPrims (α : Type) where
  /-- the literal `-(1.0/0.0)`, start value of the running maximum -/
  negInf : α
  /-- `Float.isFinite` -/
  isFinite : α → Bool
  /-- the literal `0.0` (fallback shift and start value of the sum) -/
  zero : α

section Generic
variable {α : Type} [Num α]

/-- the shift: running maximum started at `-inf`, replaced by `0.0` when not finite
(lines 72-73 of `Ext.lean`) -/
def lseAmax (E : ExtPrims α) (a : List α) : α :=
  let amax := a.foldl (fun m x => if Num.gt x m then x else m) E.negInf
  if E.isFinite amax then amax else E.zero

/-- `Σ exp (x - amax)` as a left fold from `0.0` (line 74) -/
def lseSum (E : ExtPrims α) (amax : α) (a : List α) : α :=
  a.foldl (fun acc x => acc + Num.exp (x - amax)) E.zero

/-- **`Ext.logSumExp`, for an arbitrary carrier** — the same four lines. -/
def lseShift (E : ExtPrims α) (a : List α) : α :=
  let amax := a.foldl (fun m x => if Num.gt x m then x else m) E.negInf
  let amax := if E.isFinite amax then amax else E.zero
  let s := a.foldl (fun acc x => acc + Num.exp (x - amax)) E.zero
  Num.log s + amax

theorem lseShift_eq (E : ExtPrims α) (a : List α) :
    lseShift E a = Num.log (lseSum E (lseAmax E a) a) + lseAmax E a := rfl

end Generic

/-- the `Float` primitives used by `Ext.logSumExp` -/
def floatPrims : ExtPrims Float := ⟨-(1.0/0.0), Float.isFinite, 0.0⟩

/-- **the transcription is faithful**: at `Float`, `lseShift` is literally the executed `Ext.logSumExp`
(proved without evaluating any `Float` operation: both sides are the same term up to
`if x > m` ↔ `if decide (m < x) = true`). -/
theorem lseShift_float (a : List Float) : lseShift floatPrims a = Ext.logSumExp a := by
  unfold lseShift Ext.logSumExp floatPrims
  simp only [Num.gt, Num.lt, Num.exp, Num.log, decide_eq_true_eq, GT.gt]

/-- … and hence the `logSumExp` field of the record `Det.bocdFns` that the driver passes to `BOCD.step` at the
`Float` carrier (`FrourosModel/Dets.lean:99-100`) is `lseShift floatPrims`: the object the differential harness
validates against Python and the object the theorems below speak about are the same program text. -/
theorem bocdFns_float (l : List Float) :
    (Det.bocdFns (α := Float)).logSumExp l = lseShift floatPrims l := by
  rw [lseShift_float]
  show Ext.logSumExp (l.map id) = Ext.logSumExp l
  rw [List.map_id]

/-! ## 2. Exactness over ℝ -/

theorem lseSum_real (E : ExtPrims ℝ) (hz : E.zero = 0) (m : ℝ) (a : List ℝ) :
    lseSum E m a = ((a.map (· - m)).map Real.exp).sum := by
  unfold lseSum
  have : ∀ (acc : ℝ), a.foldl (fun acc x => acc + Num.exp (x - m)) acc = acc + ((a.map (· - m)).map Real.exp).sum := by
    induction a with
    | nil => intro acc; simp
    | cons x xs ih =>
      intro acc
      rw [List.foldl_cons, ih, List.map_cons, List.map_cons, List.sum_cons, RealNum.exp_eq, add_assoc]
  rw [this, hz, zero_add]

/-- the max-shift identity: `log Σ exp (x - m) + m = log Σ exp x` for ANY real shift `m` and non-empty list.
Both logarithms have a positive argument (`sum_exp_pos`), no junk value of `Real.log` is used. -/
theorem log_sum_exp_shift (m : ℝ) (l : List ℝ) (hl : l ≠ []) :
    Real.log (((l.map (· - m)).map Real.exp).sum) + m = Real.log ((l.map Real.exp).sum) := by
  rw [sum_exp_sub, Real.log_div (sum_exp_pos l hl).ne' (Real.exp_pos m).ne', Real.log_exp]
  ring

/-- **`LSESpec` discharged.**  Over ℝ the executed routine returns exactly `log Σ exp l_i` on every non-empty
list, whatever real number stands in for `-inf` and whatever `isFinite` answers (the shift cancels).
Hypotheses: `l ≠ []` (for `l = []` the Float routine returns `log 0 = -inf`, not a real number — see `lseBot_spec`
for that case) and `E.zero = 0` (the literal `0.0` is the real number `0`). -/
theorem lseShift_spec (E : ExtPrims ℝ) (hz : E.zero = 0) (l : List ℝ) (hl : l ≠ []) :
    lseShift E l = Real.log ((l.map Real.exp).sum) := by
  rw [lseShift_eq, lseSum_real E hz, RealNum.log_eq, log_sum_exp_shift _ l hl]

/-- a natural ℝ instance of the primitives: `-inf` stand-in `b`, everything finite -/
def realPrims (b : ℝ) : ExtPrims ℝ := ⟨b, fun _ => true, 0⟩

/-- the model's `Fns` with the executed routine plugged in (`logC` arbitrary) -/
noncomputable def shiftFns (E : ExtPrims ℝ) (logC : ℝ) : Fns ℝ := ⟨lseShift E, logC⟩

/-- `LSESpec` holds for the executed routine -/
theorem lseSpec_shiftFns (E : ExtPrims ℝ) (hz : E.zero = 0) (logC : ℝ) : LSESpec (shiftFns E logC) :=
  fun l hl => lseShift_spec E hz l hl

/-- … in particular the routine agrees with the abstract exact `exFns.logSumExp` used for the non-vacuity examples
of `C08.lean` on every non-empty list -/
theorem lseShift_eq_exFns (E : ExtPrims ℝ) (hz : E.zero = 0) (l : List ℝ) (hl : l ≠ []) :
    lseShift E l = exFns.logSumExp l := lseShift_spec E hz l hl

/-- non-vacuity (concrete): `logsumexp [log 2, log 6] = log 8` through the shifted routine -/
example : lseShift (realPrims (-5)) [Real.log 2, Real.log 6] = Real.log 8 := by
  rw [lseShift_spec _ rfl _ (by simp)]
  simp only [List.map_cons, List.map_nil, List.sum_cons, List.sum_nil]
  rw [Real.exp_log (by norm_num), Real.exp_log (by norm_num)]
  norm_num

/-! ### why the shift: it is the maximum, the summed quantity lies in `[1, length]` -/

/-- running maximum over ℝ -/
theorem foldl_max_real (b : ℝ) (a : List ℝ) :
    let m := a.foldl (fun m x => if Num.gt x m then x else m) b
    (m = b ∨ m ∈ a) ∧ b ≤ m ∧ ∀ x ∈ a, x ≤ m := by
  induction a generalizing b with
  | nil => simp
  | cons y ys ih =>
    simp only [List.foldl_cons]
    by_cases h : Num.gt y b = true
    · rw [if_pos h]
      have hb : b < y := by simpa using h
      obtain ⟨h1, h2, h3⟩ := ih y
      refine ⟨?_, by linarith, ?_⟩
      · rcases h1 with h1 | h1
        · right; rw [h1]; simp
        · right; exact List.mem_cons_of_mem _ h1
      · intro x hx
        rcases List.mem_cons.mp hx with rfl | hx
        · exact h2
        · exact h3 x hx
    · rw [if_neg h]
      have hb : y ≤ b := by simpa using h
      obtain ⟨h1, h2, h3⟩ := ih b
      refine ⟨?_, h2, ?_⟩
      · rcases h1 with h1 | h1
        · left; exact h1
        · right; exact List.mem_cons_of_mem _ h1
      · intro x hx
        rcases List.mem_cons.mp hx with rfl | hx
        · linarith
        · exact h3 x hx

/-- **the shift is the maximum.**  If the stand-in for `-inf` is strictly below every entry (as `-inf` is below
every finite double) and the maximum is declared finite, then for non-empty `l` the shift used by the routine
is an element of `l` that dominates all entries. -/
theorem lseShift_shift_is_max (E : ExtPrims ℝ) (hfin : ∀ x, E.isFinite x = true) (l : List ℝ) (hl : l ≠ [])
    (hneg : ∀ x ∈ l, E.negInf < x) :
    lseAmax E l ∈ l ∧ ∀ x ∈ l, x ≤ lseAmax E l := by
  obtain ⟨h1, _, h3⟩ := foldl_max_real E.negInf l
  unfold lseAmax
  simp only [hfin, if_true]
  refine ⟨?_, h3⟩
  rcases h1 with h1 | h1
  · exfalso
    obtain ⟨x, hx⟩ := List.exists_mem_of_ne_nil l hl
    have := h3 x hx
    have := hneg x hx
    linarith
  · exact h1

/-- **no overflow, no total underflow**: under the same hypotheses every shifted exponent is `≤ 0` (each summand
`exp (x - amax)` is in `(0, 1]`), one summand is exactly `1`, so the quantity whose logarithm is taken lies in
`[1, length l]`. -/
theorem lseShift_sum_bounds (E : ExtPrims ℝ) (hz : E.zero = 0) (hfin : ∀ x, E.isFinite x = true) (l : List ℝ)
    (hl : l ≠ []) (hneg : ∀ x ∈ l, E.negInf < x) :
    (∀ x ∈ l, x - lseAmax E l ≤ 0) ∧
    1 ≤ lseSum E (lseAmax E l) l ∧ lseSum E (lseAmax E l) l ≤ (l.length : ℝ) := by
  obtain ⟨hmem, hmax⟩ := lseShift_shift_is_max E hfin l hl hneg
  set m := lseAmax E l with hm
  refine ⟨fun x hx => by linarith [hmax x hx], ?_, ?_⟩
  · rw [lseSum_real E hz]
    have h1 : Real.exp (m - m) ∈ (l.map (· - m)).map Real.exp :=
      List.mem_map.mpr ⟨m - m, List.mem_map.mpr ⟨m, hmem, rfl⟩, rfl⟩
    have := List.single_le_sum (l := (l.map (· - m)).map Real.exp) (by
      intro y hy
      obtain ⟨z, _, rfl⟩ := List.mem_map.mp hy
      exact (Real.exp_pos z).le) _ h1
    simpa using this
  · rw [lseSum_real E hz]
    have : ((l.map (· - m)).map Real.exp).sum ≤ ((l.map (· - m)).map Real.exp).length • (1 : ℝ) := by
      apply List.sum_le_card_nsmul
      intro y hy
      obtain ⟨z, hz', rfl⟩ := List.mem_map.mp hy
      obtain ⟨x, hx, rfl⟩ := List.mem_map.mp hz'
      have := hmax x hx
      simpa using (by linarith : x - m ≤ 0)
    simpa using this

/-- non-vacuity of the two theorems above: stand-in `-5` below the entries `1, 3, 2` -/
example := lseShift_sum_bounds (realPrims (-5)) rfl (fun _ => rfl) [1, 3, 2] (by simp)
  (by intro x hx; simp at hx; rcases hx with rfl | rfl | rfl <;> norm_num [realPrims])

example : lseAmax (realPrims (-5)) [1, 3, 2] = 3 := by
  simp [lseAmax, realPrims]
  norm_num

/-! ## 3. The C08 theorems for the model's own routine — no `LSESpec` hypothesis

`f := shiftFns E logC` is the model's `Fns` record with the executed routine; `E` is arbitrary up to `E.zero = 0`
and `logC` is arbitrary.  The remaining hypotheses are those of the property's quantifier (hazard in (0,1) stored
as its two logs, variances > 0). -/

section Unconditional
variable (E : ExtPrims ℝ) (hz : E.zero = 0) (logC : ℝ)
include hz

/-- every row sums to one, in every reachable state (any history of updates and resets), any configuration -/
theorem row_normalised_lse (c : Cfg ℝ) {s : State ℝ} (h : (BOCD.machine (shiftFns E logC) c).Reachable s) :
    (s.row.map Real.exp).sum = 1 ∧ s.row.length = s.n + 1 :=
  row_normalised _ (lseSpec_shiftFns E hz logC) c h

/-- every message is `exp` of the row and sums to one, in every reachable state (C08n, normalised message) -/
theorem message_normalised_lse (c : Cfg ℝ) {s : State ℝ} (h : (BOCD.machine (shiftFns E logC) c).Reachable s) :
    msg s = s.row.map Real.exp ∧ (msg s).sum = 1 ∧ (msg s).length = s.n + 1 :=
  message_normalised _ (lseSpec_shiftFns E hz logC) c h

/-- the repair changes no field but the message: model run = ghost run (unnormalised message) up to the
log-evidence shift of the log-message -/
theorem sim_run_lse (c : Cfg ℝ) (xs : List ℝ) :
    let f := shiftFns E logC
    runUpd f c xs = { BOCDU.runUpd f c xs with
      logMessage := (BOCDU.runUpd f c xs).logMessage.map (· - Real.log ((msg (BOCDU.runUpd f c xs)).sum)) } :=
  sim_run _ (lseSpec_shiftFns E hz logC) c xs

/-- Adams–MacKay forward recursion (with normalisation) along a run, linear space -/
theorem message_forward_lse (c : Cfg ℝ) (h : ℝ) (h0 : 0 < h) (h1 : h < 1)
    (hH : c.logH = Real.log h) (h1H : c.log1mH = Real.log (1 - h)) (hpv : 0 < c.priorVar) (hdv : 0 < c.dataVar)
    (xs : List ℝ) (v : ℝ) :
    let f := shiftFns E logC
    msg (runUpd f c []) = [1] ∧
    msg (runUpd f c (xs ++ [v])) =
        normalise (fwd h (msg (runUpd f c xs)) ((List.range (xs.length + 1)).map (piAt f c xs v))) ∧
    (runUpd f c (xs ++ [v])).row =
      (msg (runUpd f c (xs ++ [v]))).map (fun m => Real.log (m / (msg (runUpd f c (xs ++ [v]))).sum)) :=
  message_forward _ (lseSpec_shiftFns E hz logC) c h h0 h1 hH h1H hpv hdv xs v

/-- the row is the normalised message -/
theorem row_eq_log_msg_lse (c : Cfg ℝ) (h : ℝ) (h0 : 0 < h) (h1 : h < 1)
    (hH : c.logH = Real.log h) (h1H : c.log1mH = Real.log (1 - h)) (xs : List ℝ) :
    let f := shiftFns E logC
    (runUpd f c xs).row = (msg (runUpd f c xs)).map (fun m => Real.log (m / (msg (runUpd f c xs)).sum)) :=
  row_eq_log_msg _ (lseSpec_shiftFns E hz logC) c h h0 h1 hH h1H xs

/-- after one update the posterior is `[h, 1-h]` -/
theorem row_after_one_lse (c : Cfg ℝ) (h : ℝ) (h0 : 0 < h) (h1 : h < 1)
    (hH : c.logH = Real.log h) (h1H : c.log1mH = Real.log (1 - h)) (hpv : 0 < c.priorVar) (hdv : 0 < c.dataVar)
    (v : ℝ) : (runUpd (shiftFns E logC) c [v]).row = [Real.log h, Real.log (1 - h)] :=
  row_after_one _ (lseSpec_shiftFns E hz logC) c h h0 h1 hH h1H hpv hdv v

/-- forward-algorithm correctness, entrywise -/
theorem message_eq_joint_lse (c : Cfg ℝ) (h : ℝ) (h0 : 0 < h) (h1 : h < 1)
    (hH : c.logH = Real.log h) (h1H : c.log1mH = Real.log (1 - h)) (hpv : 0 < c.priorVar) (hdv : 0 < c.dataVar)
    (xs : List ℝ) (r : ℕ) (hr : r < (msg (runUpd (shiftFns E logC) c xs)).length) :
    (msg (runUpd (shiftFns E logC) c xs))[r] =
      (((allConfigs xs.length).filter (fun bs => decide (runLen bs = r))).map
        (jointRev (shiftFns E logC) c h xs.reverse)).sum /
        ((allConfigs xs.length).map (jointRev (shiftFns E logC) c h xs.reverse)).sum :=
  message_eq_joint _ (lseSpec_shiftFns E hz logC) c h h0 h1 hH h1H hpv hdv xs r hr

/-- the evidence: sum of the unnormalised (ghost) message, factor between the ghost's and the model's message, and
(one step) the model's normaliser `Σ fwd = P(x_{1:t+1}) / P(x_{1:t})` — see `evidence_eq_joint` -/
theorem evidence_eq_joint_lse (c : Cfg ℝ) (h : ℝ) (h0 : 0 < h) (h1 : h < 1)
    (hH : c.logH = Real.log h) (h1H : c.log1mH = Real.log (1 - h)) (hpv : 0 < c.priorVar) (hdv : 0 < c.dataVar)
    (xs : List ℝ) :
    let f := shiftFns E logC
    (msg (BOCDU.runUpd f c xs)).sum = ((allConfigs xs.length).map (jointRev f c h xs.reverse)).sum ∧
    msg (BOCDU.runUpd f c xs) =
      (msg (runUpd f c xs)).map (· * ((allConfigs xs.length).map (jointRev f c h xs.reverse)).sum) ∧
    ∀ v : ℝ, (fwd h (msg (runUpd f c xs)) ((List.range (xs.length + 1)).map (piAt f c xs v))).sum *
        ((allConfigs xs.length).map (jointRev f c h xs.reverse)).sum =
      ((allConfigs (xs ++ [v]).length).map (jointRev f c h (xs ++ [v]).reverse)).sum :=
  evidence_eq_joint _ (lseSpec_shiftFns E hz logC) c h h0 h1 hH h1H hpv hdv xs

/-- **C08 headline for the executed routine, model-independent reference.**  With the max-shifted `logsumexp`
the model runs, and ANY constant `logC`, the row after the updates `xs` is the exact run-length posterior of the
Gaussian changepoint model `specJoint` (sum over all `2^t` changepoint configurations).  Hypotheses: exactly the
quantifier of the property (hazard `h ∈ (0,1)` stored through its logs, prior and data variance positive). -/
theorem posterior_exact_gaussian_lse (c : Cfg ℝ) (h : ℝ) (h0 : 0 < h) (h1 : h < 1)
    (hH : c.logH = Real.log h) (h1H : c.log1mH = Real.log (1 - h)) (hpv : 0 < c.priorVar) (hdv : 0 < c.dataVar)
    (xs : List ℝ) (r : ℕ) (hr : r < (runUpd (shiftFns E logC) c xs).row.length) :
    Real.exp (runUpd (shiftFns E logC) c xs).row[r] =
      (((allConfigs xs.length).filter (fun bs => decide (runLen bs = r))).map (specJoint c h xs.reverse)).sum /
        ((allConfigs xs.length).map (specJoint c h xs.reverse)).sum :=
  posterior_exact_gaussian _ (lseSpec_shiftFns E hz logC) c h h0 h1 hH h1H hpv hdv xs r hr

/-- the same with the model's own predictive densities on the right-hand side -/
theorem posterior_exact_lse (c : Cfg ℝ) (h : ℝ) (h0 : 0 < h) (h1 : h < 1)
    (hH : c.logH = Real.log h) (h1H : c.log1mH = Real.log (1 - h)) (hpv : 0 < c.priorVar) (hdv : 0 < c.dataVar)
    (xs : List ℝ) (r : ℕ) (hr : r < (runUpd (shiftFns E logC) c xs).row.length) :
    Real.exp (runUpd (shiftFns E logC) c xs).row[r] =
      (((allConfigs xs.length).filter (fun bs => decide (runLen bs = r))).map
          (jointRev (shiftFns E logC) c h xs.reverse)).sum /
        ((allConfigs xs.length).map (jointRev (shiftFns E logC) c h xs.reverse)).sum :=
  posterior_exact _ (lseSpec_shiftFns E hz logC) c h h0 h1 hH h1H hpv hdv xs r hr

/-- the predictions are the posterior-weighted mixtures (weights positive, summing to one) -/
theorem pred_mixture_posterior_lse (c : Cfg ℝ) (h : ℝ) (h0 : 0 < h) (h1 : h < 1)
    (hH : c.logH = Real.log h) (h1H : c.log1mH = Real.log (1 - h)) (hpv : 0 < c.priorVar) (hdv : 0 < c.dataVar)
    (xs : List ℝ) (v : ℝ) :
    (runUpd (shiftFns E logC) c (xs ++ [v])).predMean =
      some (∑ r ∈ Finset.range (xs.length + 2), postW c h (xs ++ [v]) r * meanAt c (xs ++ [v]) r) ∧
    (runUpd (shiftFns E logC) c (xs ++ [v])).predVar =
      some (∑ r ∈ Finset.range (xs.length + 2), postW c h (xs ++ [v]) r * (1 / precAt c r + c.dataVar)) ∧
    (∀ r ∈ Finset.range (xs.length + 2), 0 < postW c h (xs ++ [v]) r) ∧
    ∑ r ∈ Finset.range (xs.length + 2), postW c h (xs ++ [v]) r = 1 :=
  pred_mixture_posterior _ (lseSpec_shiftFns E hz logC) c h h0 h1 hH h1H hpv hdv xs v

/-- predictions after the first observation -/
theorem pred_mean_first_lse (c : Cfg ℝ) (h : ℝ) (h0 : 0 < h) (h1 : h < 1)
    (hH : c.logH = Real.log h) (h1H : c.log1mH = Real.log (1 - h)) (hpv : 0 < c.priorVar) (hdv : 0 < c.dataVar)
    (v : ℝ) :
    (runUpd (shiftFns E logC) c [v]).predMean = some (h * c.priorMean + (1 - h) * meanAt c [v] 1) ∧
    (runUpd (shiftFns E logC) c [v]).predVar =
      some (h * (c.priorVar + c.dataVar) + (1 - h) * (1 / precAt c 1 + c.dataVar)) ∧
    meanAt c [v] 1 = (c.priorMean / c.priorVar + v / c.dataVar) / (1 / c.priorVar + 1 / c.dataVar) :=
  pred_mean_first _ (lseSpec_shiftFns E hz logC) c h h0 h1 hH h1H hpv hdv v

end Unconditional

/-- **the routine is irrelevant beyond its specification**: two runs that differ only in the stand-in for `-inf` /
the `isFinite` predicate produce the same state (all fields), on every stream. -/
theorem runUpd_prims_irrelevant (E E' : ExtPrims ℝ) (hz : E.zero = 0) (hz' : E'.zero = 0) (logC : ℝ) (c : Cfg ℝ)
    (xs : List ℝ) : runUpd (shiftFns E logC) c xs = runUpd (shiftFns E' logC) c xs := by
  induction xs using List.reverseRecOn with
  | nil => rfl
  | append_singleton xs v ih =>
    rw [runUpd_snoc, runUpd_snoc, ih]
    set s := runUpd (shiftFns E' logC) c xs with hs
    have hlen := lenInv_runUpd (shiftFns E' logC) c xs
    rw [← hs] at hlen
    obtain ⟨_, hl2, hl3, hl4⟩ := hlen
    -- the two calls of `logSumExp` inside `step` are on non-empty lists
    have key : ∀ l : List ℝ, l ≠ [] → (shiftFns E logC).logSumExp l = (shiftFns E' logC).logSumExp l := fun l hl => by
      show lseShift E l = lseShift E' l
      rw [lseShift_spec E hz l hl, lseShift_spec E' hz' l hl]
    have hne : (List.zipWith (· + ·)
        (List.zipWith (fun mu var => normLogPdf (shiftFns E' logC) mu (Num.sqrt var) v) s.means (varParams c s.precs))
        s.logMessage) ≠ [] := by
      intro h0
      have := congrArg List.length h0
      simp [varParams, hl2, hl3, hl4] at this
    have hnlp : ∀ mu sd w, normLogPdf (shiftFns E logC) mu sd w = normLogPdf (shiftFns E' logC) mu sd w :=
      fun _ _ _ => rfl
    unfold step
    simp only [hnlp]
    rw [key _ (List.cons_ne_nil _ _), key _ (by simpa using hne)]

/-! non-vacuity: every hypothesis of §3 holds simultaneously for `realPrims (-5)`, `exCfg (1/4)`, and the
headline specialises to a concrete stream -/
example : Real.exp (runUpd (shiftFns (realPrims (-5)) 7) (exCfg (1/4)) [1, 2, 5]).row[2] =
    (((allConfigs 3).filter (fun bs => decide (runLen bs = 2))).map (specJoint (exCfg (1/4)) (1/4) [5, 2, 1])).sum /
      ((allConfigs 3).map (specJoint (exCfg (1/4)) (1/4) [5, 2, 1])).sum :=
  posterior_exact_gaussian_lse (realPrims (-5)) rfl 7 (exCfg (1/4)) (1/4) (by norm_num) (by norm_num) rfl rfl
    (by norm_num [exCfg]) (by norm_num [exCfg]) [1, 2, 5] 2
    (by rw [(lenInv_runUpd _ _ _).1, runUpd_n]; simp)

example (v : ℝ) : (runUpd (shiftFns (realPrims 0) 0) (exCfg (1/4)) [v]).row = [Real.log (1/4), Real.log (1 - 1/4)] :=
  row_after_one_lse (realPrims 0) rfl 0 (exCfg (1/4)) (1/4) (by norm_num) (by norm_num) rfl rfl
    (by norm_num [exCfg]) (by norm_num [exCfg]) v

/-! ## 4. `-inf` entries (extended carrier)

At `Float` a list handed to `logsumexp` may contain `-inf` (e.g. `log` of an underflowed probability, or the
`-inf` padding of Python's `log_r` matrix).  The ℝ carrier cannot express this, so the routine is transcribed once
more on `Option ℝ` with **`none = -inf`, `some x` = the finite value `x`** and the IEEE conventions the routine
relies on: `-inf > m` is false, `x > -inf` is true for finite `x`, `exp (-inf - m) = 0`, `log 0 = -inf`,
`-inf + m = -inf`, `isFinite (-inf) = false`.  (`+inf` and NaN entries are not modelled.) -/

/-- IEEE `>` on `[-inf, +inf)` -/
noncomputable def gtE : Option ℝ → Option ℝ → Bool
  | some x, some m => decide (m < x)
  | some _, none => true
  | none, _ => false

/-- `exp (x - m)` for an extended entry `x` and a finite shift `m` -/
noncomputable def expE (m : ℝ) : Option ℝ → ℝ
  | some x => Real.exp (x - m)
  | none => 0

/-- `log s + m` with `log 0 = -inf` (only used for `s ≥ 0`) -/
noncomputable def logPlusE (s m : ℝ) : Option ℝ := if s = 0 then none else some (Real.log s + m)

/-- `Ext.logSumExp` on lists that may contain `-inf` -/
noncomputable def lseBot (a : List (Option ℝ)) : Option ℝ :=
  let amax := a.foldl (fun m x => if gtE x m then x else m) none
  let amax : ℝ := match amax with | some m => m | none => 0   -- `if amax.isFinite then amax else 0.0`
  let s := a.foldl (fun acc x => acc + expE amax x) 0
  logPlusE s amax

/-- the finite entries of an extended list, in order -/
def finE : List (Option ℝ) → List ℝ
  | [] => []
  | none :: xs => finE xs
  | some x :: xs => x :: finE xs

@[simp] theorem finE_nil : finE [] = [] := rfl
@[simp] theorem finE_none (xs : List (Option ℝ)) : finE (none :: xs) = finE xs := rfl
@[simp] theorem finE_some (x : ℝ) (xs : List (Option ℝ)) : finE (some x :: xs) = x :: finE xs := rfl

theorem finE_map_some (l : List ℝ) : finE (l.map some) = l := by
  induction l with
  | nil => rfl
  | cons x xs ih => simp [ih]

theorem mem_finE (a : List (Option ℝ)) (x : ℝ) : x ∈ finE a ↔ some x ∈ a := by
  induction a with
  | nil => simp
  | cons y ys ih => cases y <;> simp [ih]

theorem foldl_expE (m : ℝ) (a : List (Option ℝ)) (acc : ℝ) :
    a.foldl (fun acc x => acc + expE m x) acc = acc + (((finE a).map (· - m)).map Real.exp).sum := by
  induction a generalizing acc with
  | nil => simp
  | cons x xs ih =>
    cases x with
    | none => rw [List.foldl_cons, ih, finE_none]; simp [expE]
    | some x =>
      rw [List.foldl_cons, ih, finE_some, List.map_cons, List.map_cons, List.sum_cons]
      simp only [expE]; ring

theorem logPlusE_spec (m : ℝ) (l : List ℝ) :
    logPlusE (((l.map (· - m)).map Real.exp).sum) m =
      if l = [] then none else some (Real.log ((l.map Real.exp).sum)) := by
  by_cases h : l = []
  · simp [h, logPlusE]
  · rw [if_neg h]
    unfold logPlusE
    have hpos := sum_exp_pos (l.map (· - m)) (by simpa using h)
    rw [if_neg hpos.ne', log_sum_exp_shift m l h]

/-- **exactness with `-inf` entries, every list.**  `lseBot a` is `log Σ exp a_i` in the extended sense
(`exp (-inf) = 0`, `log 0 = -inf`): if `a` has no finite entry (in particular `a = []`) the result is `-inf`,
otherwise it is the finite number `log (Σ_{finite entries} exp a_i)`. -/
theorem lseBot_spec (a : List (Option ℝ)) :
    lseBot a = if finE a = [] then none else some (Real.log (((finE a).map Real.exp).sum)) := by
  unfold lseBot
  simp only [foldl_expE, zero_add]
  exact logPlusE_spec _ _

/-- on lists of finite values `lseBot` is the routine of §1/§2 -/
theorem lseBot_coe (E : ExtPrims ℝ) (hz : E.zero = 0) (l : List ℝ) (hl : l ≠ []) :
    lseBot (l.map some) = some (lseShift E l) := by
  rw [lseBot_spec, finE_map_some, if_neg hl, lseShift_spec E hz l hl]

/-- `-inf` entries are ignored: removing them does not change the result -/
theorem lseBot_filter (a : List (Option ℝ)) : lseBot a = lseBot (a.filter Option.isSome) := by
  have : finE (a.filter Option.isSome) = finE a := by
    induction a with
    | nil => rfl
    | cons x xs ih => cases x <;> simp [ih]
  rw [lseBot_spec, lseBot_spec, this]

/-- all entries `-inf` (or no entry): the result is `-inf` -/
theorem lseBot_all_bot (a : List (Option ℝ)) (h : ∀ x ∈ a, x = none) : lseBot a = none := by
  have : finE a = [] := by
    induction a with
    | nil => rfl
    | cons x xs ih =>
      have hx := h x (by simp)
      subst hx
      rw [finE_none]
      exact ih (fun y hy => h y (by simp [hy]))
  rw [lseBot_spec, if_pos this]

/-- concrete: `logsumexp [-inf, log 2, -inf, log 6] = log 8` -/
example : lseBot [none, some (Real.log 2), none, some (Real.log 6)] = some (Real.log 8) := by
  rw [lseBot_spec]
  simp only [finE_none, finE_some, finE_nil, List.map_cons, List.map_nil, List.sum_cons, List.sum_nil]
  rw [if_neg (List.cons_ne_nil _ _), Real.exp_log (by norm_num), Real.exp_log (by norm_num)]
  norm_num

/-! ## 5. Further items of review C08 §4 -/

/-! ### 5a. history normal form and run-length range (every carrier) -/

section Generic
variable {α : Type} [Num α]

/-- **history normal form (every carrier).**  After ANY interleaving of updates and resets the state is the one
reached from a fresh detector by the values fed since the last reset, and `n` counts exactly those values. -/
theorem run_history (f : Fns α) (c : Cfg α) (ops : List (Op α)) :
    (BOCD.machine f c).run ops = runUpd f c (C07.sinceReset ops) ∧
    ((BOCD.machine f c).run ops).n = (C07.sinceReset ops).length := by
  have h : (BOCD.machine f c).run ops = runUpd f c (C07.sinceReset ops) := by
    induction ops using List.reverseRecOn with
    | nil => rfl
    | append_singleton ops op ih =>
      have hrun : (BOCD.machine f c).run (ops ++ [op]) = (BOCD.machine f c).apply ((BOCD.machine f c).run ops) op := by
        simp [Machine.run, Machine.runFrom, List.foldl_append]
      rw [hrun, ih]
      cases op with
      | update v => rw [C07.sinceReset_snoc_update, runUpd_snoc]; rfl
      | reset => rw [C07.sinceReset_snoc_reset]; rfl
  exact ⟨h, by rw [h, runUpd_n]⟩

/-- (every carrier, any history) the message held by the model is the row -/
theorem run_logMessage_eq_row (f : Fns α) (c : Cfg α) (ops : List (Op α)) :
    ((BOCD.machine f c).run ops).logMessage = ((BOCD.machine f c).run ops).row :=
  logMessage_eq_row f c (Machine.reachable_run _ _)

theorem argmax_go_lt (ys : List α) : ∀ (best : α) (bi i : Nat), bi < i → argmax.go best bi i ys < i + ys.length := by
  induction ys with
  | nil => intro best bi i h; simpa [argmax.go] using h
  | cons y ys ih =>
    intro best bi i h
    unfold argmax.go
    split
    · have := ih y i (i + 1) (by omega); simp only [List.length_cons]; omega
    · have := ih best bi (i + 1) (by omega); simp only [List.length_cons]; omega

/-- (every carrier — no assumption on `>`, so also with NaN entries) `argmax` of a non-empty list is an index
of that list; the junk value `argmax [] = 0` is excluded by `l ≠ []`. -/
theorem argmax_lt_length (l : List α) (hl : l ≠ []) : argmax l < l.length := by
  cases l with
  | nil => exact absurd rfl hl
  | cons x xs =>
    have := argmax_go_lt xs x 0 1 (by omega)
    show argmax.go x 0 1 xs < (x :: xs).length
    simp only [List.length_cons]; omega

/-- (every carrier) in every reachable state the MAP run length `argmax row` is one of `0..n` -/
theorem argmax_row_le_n (f : Fns α) (c : Cfg α) {s : State α} (hs : (BOCD.machine f c).Reachable s) :
    argmax s.row ≤ s.n := by
  have hlen := (lenInv_reachable f c hs).1
  have hne : s.row ≠ [] := by intro h0; rw [h0] at hlen; simp at hlen
  have := argmax_lt_length s.row hne
  omega

/-- **MAP rule exactly as the property words it (every carrier, every reachable state).**  From
`min_num_instances` on, drift is reported iff the most probable run length is SHORTER than `n`
(`n` = number of updates since the last reset, by `run_history`). -/
theorem map_rule_lt (f : Fns α) (c : Cfg α) {s : State α} (hs : (BOCD.machine f c).Reachable s)
    (h : c.minN ≤ s.n) : s.drift = true ↔ argmax s.row < s.n := by
  rw [map_rule_reachable f c hs h]
  have := argmax_row_le_n f c hs
  omega

end Generic

/-- **the repair is invisible in every field but the message, after ANY history** (ℝ, exact `logsumexp`): the
model state after any interleaving of updates and resets is the ghost run (the step function before the repair, fed
the values since the last reset) with the log-message shifted by the log-evidence. -/
theorem sim_history (f : Fns ℝ) (hLSE : LSESpec f) (c : Cfg ℝ) (ops : List (Op ℝ)) :
    (BOCD.machine f c).run ops = { BOCDU.runUpd f c (C07.sinceReset ops) with
      logMessage := (BOCDU.runUpd f c (C07.sinceReset ops)).logMessage.map
        (· - Real.log ((msg (BOCDU.runUpd f c (C07.sinceReset ops))).sum)) } := by
  rw [(run_history f c ops).1]
  exact sim_run f hLSE c _

example := sim_history exFns exFns_spec (exCfg (1/4)) [.update 7, .reset, .update 1, .update 2]

/-- non-vacuity of `map_rule_lt` / `run_history` (hypotheses satisfiable: `minN = 1 ≤ n = 1`) -/
example (v : ℝ) := map_rule_lt exFns (exCfg (1/4)) (runUpd_reachable exFns (exCfg (1/4)) [v])
  (by rw [runUpd_n]; simp [exCfg])
example : ((BOCD.machine exFns (exCfg (1/4))).run [.update 7, .reset, .update 1, .update 2]).n = 2 := by
  rw [(run_history _ _ _).2]; rfl

/-! ### 5b. MAP rule in posterior terms (ℝ) -/

/-- **drift ⇔ some shorter run length is at least as probable as "no changepoint".**  Under the hypotheses of
`posterior_exact_gaussian`, for the executed routine, with `t = xs.length ≥ minN` updates since the last reset:
`drift = true ↔ ∃ r < t, P(r_t = t | x) ≤ P(r_t = r | x)`, the probabilities being those of the model-independent
reference `postW` (ties count as drift). -/
theorem map_rule_posterior (f : Fns ℝ) (hLSE : LSESpec f) (c : Cfg ℝ) (h : ℝ) (h0 : 0 < h) (h1 : h < 1)
    (hH : c.logH = Real.log h) (h1H : c.log1mH = Real.log (1 - h)) (hpv : 0 < c.priorVar) (hdv : 0 < c.dataVar)
    (xs : List ℝ) (hmin : c.minN ≤ xs.length) :
    (runUpd f c xs).drift = true ↔ ∃ r, r < xs.length ∧ postW c h xs xs.length ≤ postW c h xs r := by
  have hs := runUpd_reachable f c xs
  have hlen : (runUpd f c xs).row.length = xs.length + 1 := by rw [(lenInv_runUpd f c xs).1, runUpd_n]
  have hne : (runUpd f c xs).row ≠ [] := by intro h'; rw [h'] at hlen; simp at hlen
  have hw : ∀ r (hr : r < (runUpd f c xs).row.length), Real.exp (runUpd f c xs).row[r] = postW c h xs r :=
    fun r hr => posterior_exact_gaussian f hLSE c h h0 h1 hH h1H hpv hdv xs r hr
  rw [map_rule_reachable f c hs (by rw [runUpd_n]; exact hmin), runUpd_n, Ne, argmax_real _ hne]
  constructor
  · intro hnot
    by_contra hcon
    push Not at hcon
    apply hnot
    refine ⟨by omega, ?_, ?_⟩
    · intro j hj
      rcases Nat.lt_or_ge j xs.length with hlt | hge
      · have := hcon j hlt
        rw [← hw j hj, ← hw xs.length (by omega)] at this
        exact (Real.exp_lt_exp.mp this).le
      · have : j = xs.length := by omega
        subst this; exact le_refl _
    · intro j hj
      have := hcon j hj
      rw [← hw j (by omega), ← hw xs.length (by omega)] at this
      exact Real.exp_lt_exp.mp this
  · rintro ⟨r, hr, hle⟩ ⟨hk, _, hfirst⟩
    have := hfirst r hr
    rw [← hw r (by omega), ← hw xs.length (by omega)] at hle
    have := Real.exp_lt_exp.mpr this
    linarith

/-- … and unconditionally for the executed routine -/
theorem map_rule_posterior_lse (E : ExtPrims ℝ) (hz : E.zero = 0) (logC : ℝ) (c : Cfg ℝ) (h : ℝ) (h0 : 0 < h)
    (h1 : h < 1) (hH : c.logH = Real.log h) (h1H : c.log1mH = Real.log (1 - h)) (hpv : 0 < c.priorVar)
    (hdv : 0 < c.dataVar) (xs : List ℝ) (hmin : c.minN ≤ xs.length) :
    (runUpd (shiftFns E logC) c xs).drift = true ↔
      ∃ r, r < xs.length ∧ postW c h xs xs.length ≤ postW c h xs r :=
  map_rule_posterior _ (lseSpec_shiftFns E hz logC) c h h0 h1 hH h1H hpv hdv xs hmin

/-- non-vacuity: hazard `1/2`, one observation — posterior `[1/2, 1/2]`, a tie, hence drift -/
example (v : ℝ) : ∃ r, r < [v].length ∧ postW (exCfg (1/2)) (1/2) [v] [v].length ≤ postW (exCfg (1/2)) (1/2) [v] r := by
  have hd : (runUpd exFns (exCfg (1/2)) [v]).drift = true := by
    have hr := row_after_one exFns exFns_spec (exCfg (1/2)) (1/2) (by norm_num) (by norm_num) rfl rfl
      (by norm_num [exCfg]) (by norm_num [exCfg]) v
    have hs := runUpd_reachable exFns (exCfg (1/2)) [v]
    rw [map_rule_reachable exFns (exCfg (1/2)) hs (by rw [runUpd_n]; simp [exCfg]), hr, runUpd_n]
    have : argmax [Real.log (1/2), Real.log (1 - 1/2)] = 0 := by
      rw [argmax_real _ (by simp)]
      refine ⟨by simp, ?_, ?_⟩
      · intro j hj
        have : j < 2 := by simpa using hj
        interval_cases j <;> norm_num
      · intro j hj; omega
    rw [this]; simp
  exact (map_rule_posterior exFns exFns_spec (exCfg (1/2)) (1/2) (by norm_num) (by norm_num) rfl rfl
    (by norm_num [exCfg]) (by norm_num [exCfg]) [v] (by simp [exCfg])).mp hd

/-! ### 5c. conjugacy without integrals: prior × likelihood = predictive × posterior (ℝ)

`C08.specJoint` USES the closed forms `N(meanAt r, 1/precAt r)` (belief about the mean after a run of `r`
observations) and `N(meanAt r, 1/precAt r + dataVar)` (predictive).  That these are the Bayes posterior and the
posterior predictive of the known-variance Gaussian model is the pointwise identity below (Bayes' rule with the
integral already carried out: integrating both sides over `μ` gives "predictive = ∫ prior × likelihood", and
dividing gives "posterior = prior × likelihood / predictive"). -/

/-- Bayes' identity for one conjugate Gaussian update, abstract parameters: belief `N(m, 1/p)`, observation noise
variance `dv`; after observing `x` the belief is `N((m p + x/dv)/(p + 1/dv), 1/(p + 1/dv))` and the predictive of
`x` was `N(m, 1/p + dv)`.  Hypotheses `0 < p`, `0 < dv`: all four variances are positive. -/
theorem gauss_bayes (m p dv μ x : ℝ) (hp : 0 < p) (hdv : 0 < dv) :
    gaussPdf m (1 / p) μ * gaussPdf μ dv x =
      gaussPdf m (1 / p + dv) x * gaussPdf ((m * p + x / dv) / (p + 1 / dv)) (1 / (p + 1 / dv)) μ := by
  have hp' : 0 < p + 1 / dv := by positivity
  have hs : 0 < 1 / p + dv := by positivity
  unfold gaussPdf
  have hconst : Real.sqrt (2 * Real.pi * (1 / p)) * Real.sqrt (2 * Real.pi * dv) =
      Real.sqrt (2 * Real.pi * (1 / p + dv)) * Real.sqrt (2 * Real.pi * (1 / (p + 1 / dv))) := by
    rw [← Real.sqrt_mul (by positivity), ← Real.sqrt_mul (by positivity)]
    congr 1
    field_simp
    ring
  have hexp : -(μ - m) ^ 2 / (2 * (1 / p)) + -(x - μ) ^ 2 / (2 * dv) =
      -(x - m) ^ 2 / (2 * (1 / p + dv)) +
        -(μ - (m * p + x / dv) / (p + 1 / dv)) ^ 2 / (2 * (1 / (p + 1 / dv))) := by
    field_simp
    ring
  calc (Real.sqrt (2 * Real.pi * (1 / p)))⁻¹ * Real.exp (-(μ - m) ^ 2 / (2 * (1 / p))) *
        ((Real.sqrt (2 * Real.pi * dv))⁻¹ * Real.exp (-(x - μ) ^ 2 / (2 * dv)))
      = (Real.sqrt (2 * Real.pi * (1 / p)) * Real.sqrt (2 * Real.pi * dv))⁻¹ *
          Real.exp (-(μ - m) ^ 2 / (2 * (1 / p)) + -(x - μ) ^ 2 / (2 * dv)) := by
        rw [Real.exp_add, mul_inv]; ring
    _ = (Real.sqrt (2 * Real.pi * (1 / p + dv)) * Real.sqrt (2 * Real.pi * (1 / (p + 1 / dv))))⁻¹ *
          Real.exp (-(x - m) ^ 2 / (2 * (1 / p + dv)) +
            -(μ - (m * p + x / dv) / (p + 1 / dv)) ^ 2 / (2 * (1 / (p + 1 / dv)))) := by
        rw [hconst, hexp]
    _ = _ := by rw [Real.exp_add, mul_inv]; ring

/-- the model's parameter update is the conjugate one: absorbing `x` into a run of `r` values -/
theorem meanAt_succ (c : Cfg ℝ) (hpv : 0 < c.priorVar) (hdv : 0 < c.dataVar) (ys : List ℝ) (x : ℝ) (r : ℕ) :
    precAt c (r + 1) = precAt c r + 1 / c.dataVar ∧
    meanAt c (ys ++ [x]) (r + 1) = (meanAt c ys r * precAt c r + x / c.dataVar) / (precAt c r + 1 / c.dataVar) := by
  have h3 : precAt c (r + 1) = precAt c r + 1 / c.dataVar := by
    simp only [precAt]; push_cast; ring
  refine ⟨h3, ?_⟩
  have h1 := (precAt_pos c hpv hdv r).ne'
  have h2 := (precAt_pos c hpv hdv (r + 1)).ne'
  rw [← h3]
  unfold meanAt
  simp only [List.reverse_append, List.reverse_cons, List.reverse_nil, List.nil_append, List.singleton_append,
    List.take_succ_cons, List.sum_cons]
  field_simp
  ring

/-- **conjugacy of the reference model** (review C08 §4 item 1).  For every run length `r`, earlier observations
`ys`, new observation `x` and every value `μ` of the unknown mean:
`belief_r(μ) · N(x | μ, dataVar) = predictive_r(x) · belief_{r+1}(μ)`,
with `belief_r = N(meanAt c ys r, 1/precAt c r)`, `predictive_r = N(meanAt c ys r, 1/precAt c r + dataVar)` (the
density used by `specJoint`) and `belief_{r+1}` computed on `ys ++ [x]`.  Together with `meanAt_zero`
(`belief_0 = N(priorMean, priorVar)`) this identifies the closed forms used by `specJoint` as the Bayesian posterior
and posterior predictive of the Gaussian known-variance model. -/
theorem conjugate_update (c : Cfg ℝ) (hpv : 0 < c.priorVar) (hdv : 0 < c.dataVar) (ys : List ℝ) (x μ : ℝ) (r : ℕ) :
    gaussPdf (meanAt c ys r) (1 / precAt c r) μ * gaussPdf μ c.dataVar x =
      gaussPdf (meanAt c ys r) (1 / precAt c r + c.dataVar) x *
        gaussPdf (meanAt c (ys ++ [x]) (r + 1)) (1 / precAt c (r + 1)) μ := by
  obtain ⟨hP, hM⟩ := meanAt_succ c hpv hdv ys x r
  rw [hP, hM]
  exact gauss_bayes _ _ _ μ x (precAt_pos c hpv hdv r) hdv

/-- the prior itself: `belief_0 = N(priorMean, priorVar)` -/
theorem belief_zero (c : Cfg ℝ) (hpv : 0 < c.priorVar) (ys : List ℝ) (μ : ℝ) :
    gaussPdf (meanAt c ys 0) (1 / precAt c 0) μ = gaussPdf c.priorMean c.priorVar μ := by
  rw [meanAt_zero c hpv]
  simp [precAt]

example (μ : ℝ) := conjugate_update (exCfg (1/4)) (by norm_num [exCfg]) (by norm_num [exCfg]) [1, 2] 5 μ 2

/-- non-vacuity: prior `N(0,1)`, unit noise, first observation `2`: posterior `N(1, 1/2)`, predictive `N(0, 2)` -/
example (μ : ℝ) : gaussPdf 0 1 μ * gaussPdf μ 1 2 = gaussPdf 0 2 2 * gaussPdf 1 (1/2) μ := by
  have := gauss_bayes 0 1 1 μ 2 (by norm_num) (by norm_num)
  norm_num at this
  exact this

end Frouros.C08

/-! ## Axiom audit -/
#print axioms Frouros.C08.lseShift_float
#print axioms Frouros.C08.bocdFns_float
#print axioms Frouros.C08.log_sum_exp_shift
#print axioms Frouros.C08.lseShift_spec
#print axioms Frouros.C08.lseSpec_shiftFns
#print axioms Frouros.C08.lseShift_shift_is_max
#print axioms Frouros.C08.lseShift_sum_bounds
#print axioms Frouros.C08.row_normalised_lse
#print axioms Frouros.C08.message_forward_lse
#print axioms Frouros.C08.row_eq_log_msg_lse
#print axioms Frouros.C08.row_after_one_lse
#print axioms Frouros.C08.message_eq_joint_lse
#print axioms Frouros.C08.evidence_eq_joint_lse
#print axioms Frouros.C08.posterior_exact_lse
#print axioms Frouros.C08.posterior_exact_gaussian_lse
#print axioms Frouros.C08.pred_mixture_posterior_lse
#print axioms Frouros.C08.pred_mean_first_lse
#print axioms Frouros.C08.runUpd_prims_irrelevant
#print axioms Frouros.C08.lseBot_spec
#print axioms Frouros.C08.lseBot_coe
#print axioms Frouros.C08.lseBot_filter
#print axioms Frouros.C08.lseBot_all_bot
#print axioms Frouros.C08.run_history
#print axioms Frouros.C08.argmax_lt_length
#print axioms Frouros.C08.argmax_row_le_n
#print axioms Frouros.C08.map_rule_lt
#print axioms Frouros.C08.map_rule_posterior
#print axioms Frouros.C08.map_rule_posterior_lse
#print axioms Frouros.C08.gauss_bayes
#print axioms Frouros.C08.meanAt_succ
#print axioms Frouros.C08.conjugate_update
#print axioms Frouros.C08.belief_zero
-- C08n
#print axioms Frouros.C08.message_normalised_lse
#print axioms Frouros.C08.sim_run_lse
#print axioms Frouros.C08.run_logMessage_eq_row
#print axioms Frouros.C08.sim_history
