/-
  The real-number carrier: `Num ℝ` (noncomputable; comparisons decided classically) and the simp
  lemmas that turn the model's Boolean comparisons / literals into ordinary statements about ℝ.
-/
import Mathlib.Analysis.SpecialFunctions.Log.Basic
import Mathlib.Analysis.SpecialFunctions.Sqrt
import Mathlib.Analysis.SpecialFunctions.Exp
import FrourosModel.Num

namespace Frouros
open Classical in
noncomputable instance instNumReal : Num ℝ where
  ofNat n := (n : ℝ)
  ofDec m e := (m : ℝ) / (10 : ℝ) ^ e
  sqrt := Real.sqrt
  log := Real.log
  exp := Real.exp
  abs x := |x|
  npow x n := x ^ n
  lt a b := decide (a < b)
  le a b := decide (a ≤ b)
  beq a b := decide (a = b)

namespace RealNum
@[simp] theorem ofNat_eq (n : Nat) : (Num.ofNat n : ℝ) = (n : ℝ) := rfl
@[simp] theorem ofDec_eq (m e : Nat) : (Num.ofDec m e : ℝ) = (m : ℝ) / (10 : ℝ) ^ e := rfl
@[simp] theorem sqrt_eq (x : ℝ) : Num.sqrt x = Real.sqrt x := rfl
@[simp] theorem log_eq (x : ℝ) : Num.log x = Real.log x := rfl
@[simp] theorem exp_eq (x : ℝ) : Num.exp x = Real.exp x := rfl
@[simp] theorem abs_eq (x : ℝ) : Num.abs x = |x| := rfl
@[simp] theorem npow_eq (x : ℝ) (n : Nat) : Num.npow x n = x ^ n := rfl
@[simp] theorem lt_iff (a b : ℝ) : Num.lt a b = true ↔ a < b := by simp [Num.lt]
@[simp] theorem le_iff (a b : ℝ) : Num.le a b = true ↔ a ≤ b := by simp [Num.le]
@[simp] theorem beq_iff (a b : ℝ) : Num.beq a b = true ↔ a = b := by simp [Num.beq]
@[simp] theorem gt_iff (a b : ℝ) : Num.gt a b = true ↔ b < a := by simp [Num.gt]
@[simp] theorem ge_iff (a b : ℝ) : Num.ge a b = true ↔ b ≤ a := by simp [Num.ge]
@[simp] theorem lt_false_iff (a b : ℝ) : Num.lt a b = false ↔ ¬ a < b := by simp [Num.lt]
@[simp] theorem le_false_iff (a b : ℝ) : Num.le a b = false ↔ ¬ a ≤ b := by simp [Num.le]
@[simp] theorem gt_false_iff (a b : ℝ) : Num.gt a b = false ↔ ¬ b < a := by simp [Num.gt]
@[simp] theorem ge_false_iff (a b : ℝ) : Num.ge a b = false ↔ ¬ b ≤ a := by simp [Num.ge]
@[simp] theorem zero_eq : (Num.zero : ℝ) = 0 := by simp [Num.zero]
@[simp] theorem one_eq : (Num.one : ℝ) = 1 := by simp [Num.one]
@[simp] theorem two_eq : (Num.two : ℝ) = 2 := by simp [Num.two]
theorem max0_eq (x : ℝ) : Num.max0 x = max 0 x := by
  unfold Num.max0
  by_cases h : x < 0
  · simp [h, max_eq_left (le_of_lt h)]
  · simp [h, max_eq_right (not_lt.mp h)]
end RealNum
end Frouros
