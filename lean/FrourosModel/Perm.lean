/-
  Model of frouros/callbacks/batch/permutation_test.py (`_compute_*`) and the re-splitting of
  frouros/utils/stats.py `permutation`.
-/
import FrourosModel.Num
namespace Frouros.Perm
open Frouros
variable {α : Type} [Num α]

def sum (l : List α) : α := l.foldl (· + ·) Num.zero

def choose : Nat → Nat → Nat
  | _, 0 => 1
  | 0, _ + 1 => 0
  | n + 1, k + 1 => choose n k + choose n (k + 1)

/-- fast binomial coefficient for the driver -/
def chooseFast (n k : Nat) : Nat := Id.run do
  if k > n then return 0
  let mut r := 1
  for i in [0:k] do
    r := r * (n - i) / (i + 1)
  return r

def binomPmf (m k : Nat) (p : α) : α := (Num.ofNat (chooseFast m k) : α) * Num.npow p k * Num.npow (Num.one - p) (m - k)
/-- `scipy.stats.binom.cdf(b, m, p)` -/
def binomCdf (b m : Nat) (p : α) : α := sum ((List.range (b + 1)).map (fun k => binomPmf m k p))

/-- number of null statistics `≥ observed` -/
def extreme (null : List α) (observed : α) : Nat := (null.filter (fun s => Num.ge s observed)).length

def pConservative (b m : Nat) : α := (Num.ofNat (b + 1) : α) / Num.ofNat (m + 1)
def pEstimate (b m : Nat) : α := (Num.ofNat b : α) / Num.ofNat m
/-- `np.mean(binom.cdf(b, m, arange(1, mt+1)/mt))` -/
def pExact (b m mt : Nat) : α :=
  sum ((List.range mt).map (fun t => binomCdf b m ((Num.ofNat (t + 1) : α) / Num.ofNat mt))) / Num.ofNat mt

/-- `∫₀^a p^k (1-p)^j dp = Σ_i C(j,i) (-1)^i a^(k+i+1)/(k+i+1)` -/
def monoIntegral (k j : Nat) (a : α) : α :=
  sum ((List.range (j + 1)).map (fun i =>
    let t := (Num.ofNat (chooseFast j i) : α) * Num.npow a (k + i + 1) / Num.ofNat (k + i + 1)
    if i % 2 == 0 then t else -t))
/-- `∫₀^a BinomCDF(b; m, p) dp` -/
def cdfIntegral (b m : Nat) (a : α) : α :=
  sum ((List.range (b + 1)).map (fun k => (Num.ofNat (chooseFast m k) : α) * monoIntegral k (m - k) a))

/-- `_compute_approximate` as written (the integral is multiplied by `0.5/mt` a second time) -/
def pApproximate (b m mt : Nat) : α :=
  let a : α := Num.ofDec 5 1 / Num.ofNat mt
  (Num.ofNat (b + 1) : α) / Num.ofNat (m + 1) - a * cdfIntegral b m a

/-- Phipson–Smyth approximate formula (specification): `(b+1)/(m+1) − ∫₀^{0.5/mt} BinomCDF` -/
def pApproximateSpec (b m mt : Nat) : α :=
  let a : α := Num.ofDec 5 1 / Num.ofNat mt
  (Num.ofNat (b + 1) : α) / Num.ofNat (m + 1) - cdfIntegral b m a

/-- the re-split of one permuted pooled sample: `(data[:n], data[-m:])` -/
def resplit {X : Type} (n m : Nat) (perm : List X) : List X × List X := (perm.take n, perm.drop (perm.length - m))

/-- null statistics: the detector's statistic with the detector's parameters on each re-split -/
def nullStats {X P : Type} (stat : P → List X → List X → α) (params : P) (n m : Nat) (perms : List (List X)) : List α :=
  perms.map (fun p => let (a, b) := resplit n m p; stat params a b)

end Frouros.Perm

namespace Frouros.Perm
variable {α : Type} [Num α]

/-! ### `_calculate_p_value`: method dispatch -/
inductive Method where | auto | conservative | exact | approximate | estimate
  deriving DecidableEq, Repr

def maxNumPerm : Nat := 1000000

/-- `if method == "auto": method = "approximate" if num_permutations > MAX_NUM_PERM else "exact"` -/
def resolve (m : Method) (numPerm : Nat) : Method :=
  match m with
  | .auto => if numPerm > maxNumPerm then .approximate else .exact
  | m => m

/-- `total_num_permutations` when the user gave none: `min(max_num_permutations, MAX_NUM_PERM)` -/
def totalPerms (total : Option Nat) (maxPerms : Nat) : Nat :=
  match total with | some t => t | none => min maxPerms maxNumPerm

/-- the p-value reported for null statistics `null` and observed statistic `obs` (after the repair the conservative
formula divides by the number of statistics computed) -/
def pValue (m : Method) (numPerm : Nat) (total : Option Nat) (maxPerms : Nat) (null : List α) (obs : α) : α :=
  let b := extreme null obs
  let k := null.length
  let mt := totalPerms total maxPerms
  match resolve m numPerm with
  | .conservative => pConservative b k
  | .exact => pExact b k mt
  | .approximate => pApproximate b k mt
  | .estimate => pEstimate b k
  | .auto => pExact b k mt      -- unreachable: `resolve` never returns `auto`

end Frouros.Perm
