/-
  Validation tables of the configuration classes / constructors (DESIGN Appendix C), as the setters
  perform them *in order*.  `firstErr` returns the error of the first failing test, `none` = accepted.
  Integers are `Int` (negative values are part of the question), reals are the carrier.
-/
import FrourosModel.Stats
namespace Frouros.Config
open Frouros
variable {α : Type} [Num α]

def firstErr : List (Bool × Err) → Option Err
  | [] => none
  | (fails, e) :: rest => if fails then some e else firstErr rest

@[inline] def z : α := Num.zero
@[inline] def o : α := Num.one
/-- `not lo < v <= hi` etc. -/
def notIn (loOpen hiOpen : Bool) (lo hi v : α) : Bool :=
  !((if loOpen then Num.lt lo v else Num.le lo v) && (if hiOpen then Num.lt v hi else Num.le v hi))

def minN (n : Int) : Bool × Err := (decide (n < 1), Err.value)
/-- `not value > 0` (rejects NaN, unlike `value <= 0`) -/
def notPos (v : α) : Bool := !(Num.gt v z)
/-- `not value >= 0` -/
def notNonneg (v : α) : Bool := !(Num.ge v z)

def spc (warn drift : α) (n : Int) : List (Bool × Err) :=
  [minN n, (notPos warn, Err.value), (notPos drift, Err.value), (Num.le drift warn, Err.value)]

def ddm (warn drift : α) (n : Int) : Option Err := firstErr (spc warn drift n)
def rddm (warn drift : α) (n maxConcept minConcept maxWarn : Int) : Option Err :=
  let _ := maxConcept; let _ := maxWarn
  firstErr (spc warn drift n ++ [(decide (minConcept < 1), Err.value)])
def eddm (alpha beta level : α) (minMis : Int) : Option Err :=
  let _ := alpha
  firstErr [(notPos beta, Err.value), (Num.ge beta alpha, Err.value), (notPos level, Err.value), (decide (minMis < 0), Err.value)]
def hddmBase (alphaD alphaW : α) (n : Int) : List (Bool × Err) :=
  [minN n, (notIn true false z o alphaD, Err.value), (notIn true false z o alphaW, Err.value), (Num.le alphaW alphaD, Err.value)]
def hddma (alphaD alphaW : α) (n : Int) : Option Err := firstErr (hddmBase alphaD alphaW n)
def hddmw (alphaD alphaW lam : α) (n : Int) : Option Err :=
  firstErr (hddmBase alphaD alphaW n ++ [(notIn true false z o lam, Err.value)])
def ecdd (lam warn : α) (arl n : Int) : Option Err :=
  firstErr [minN n, (!(arl == 100 || arl == 400 || arl == 1000), Err.invalidARL),
            (notIn false false z o lam, Err.value), (notIn true true z o warn, Err.value)]
def adwin (delta : α) (clock m minWindow n : Int) : Option Err :=
  firstErr [minN n, (decide (clock < 1), Err.value), (notIn true true z o delta, Err.value), (decide (m < 1), Err.value), (decide (minWindow < 1), Err.value)]
def kswin (alpha : α) (n numTest : Int) : Option Err :=
  firstErr [minN n, (notPos alpha, Err.value), (decide (numTest > n / 2), Err.value), (decide (numTest < 1), Err.value)]
def stepd (alphaD alphaW : α) (n : Int) : Option Err :=
  firstErr [minN n, (notPos alphaD, Err.value), (notPos alphaW, Err.value), (Num.le alphaW alphaD, Err.value)]
def cusum (lam delta : α) (n : Int) : Option Err :=
  firstErr [minN n, (notNonneg lam, Err.value), (notIn false false z o delta, Err.value)]
def pageHinkley (lam delta alpha : α) (n : Int) : Option Err :=
  firstErr [minN n, (notNonneg lam, Err.value), (notIn false false z o delta, Err.value), (notIn false false z o alpha, Err.value)]
def gma (lam alpha : α) (n : Int) : Option Err :=
  firstErr [minN n, (notNonneg lam, Err.value), (notIn false false z o alpha, Err.value)]
/-- `GaussianUnknownMean(prior_mean, prior_var, data_var)` -/
def gaussian (priorVar dataVar : α) : Option Err :=
  firstErr [(Num.beq priorVar z, Err.zeroDivision), (notPos dataVar, Err.value)]
def permutation (numPerm : Int) (total : Option Int) (numJobs : Int) (methodOk : Bool) : Option Err :=
  firstErr [(decide (numPerm < 1), Err.value), (decide (numPerm > 1000000), Err.value),
            (match total with | none => false | some t => decide (t < 1), Err.value),
            (match total with | none => false | some t => decide (t > 1000000), Err.value),
            (numJobs == 0 || decide (numJobs < -1), Err.value), (!methodOk, Err.value)]
def resetCallback (alpha : α) : Option Err := firstErr [(notPos alpha, Err.value)]
def chunkSize (cs : Option Int) : Option Err := firstErr [(match cs with | none => false | some c => decide (c ≤ 0), Err.value)]
def positiveInt (v : Int) : Option Err := firstErr [(decide (v < 1), Err.value)]      -- num_bins, window_size
def prequential (alpha : α) : Option Err := firstErr [(notIn true false z o alpha, Err.value)]

end Frouros.Config
