/-
  Float re-implementations of the external numeric routines the Python code calls
  (scipy.special.ndtr via scipy.stats.norm.sf, scipy.special.logsumexp).  They are *inputs* of the
  theorems (arbitrary functions) and only used by the driver for the correspondence check.
-/
import FrourosModel.Num
namespace Frouros.Ext

/-- cephes `polevl` -/
def polevl (x : Float) (c : List Float) : Float :=
  match c with
  | [] => 0.0
  | c0 :: cs => cs.foldl (fun acc ci => acc * x + ci) c0
/-- cephes `p1evl` (leading coefficient 1 omitted) -/
def p1evl (x : Float) (c : List Float) : Float :=
  match c with
  | [] => 1.0
  | c0 :: cs => cs.foldl (fun acc ci => acc * x + ci) (x + c0)

def ndtrP : List Float := [2.46196981473530512524E-10, 5.64189564831068821977E-1, 7.46321056442269912687E0,
  4.86371970985681366614E1, 1.96520832956077098242E2, 5.26445194995477358631E2,
  9.34528527171957607540E2, 1.02755188689515710272E3, 5.57535335369399327526E2]
def ndtrQ : List Float := [1.32281951154744992508E1, 8.67072140885989742329E1, 3.54937778887819891062E2,
  9.75708501743205489753E2, 1.82390916687909736289E3, 2.24633760818710981792E3,
  1.65666309194161350182E3, 5.57535340817727675546E2]
def ndtrR : List Float := [5.64189583547755073984E-1, 1.27536670759978104416E0, 5.01905042251180477414E0,
  6.16021097993053585195E0, 7.40974269950448939160E0, 2.97886665372100240670E0]
def ndtrS : List Float := [2.26052863220117276590E0, 9.39603524938001434673E0, 1.20489539808096656605E1,
  1.70814450747565897222E1, 9.60896809063285878198E0, 3.36907645100081516050E0]
def ndtrT : List Float := [9.60497373987051638749E0, 9.00260197203842689217E1, 2.23200534594684319226E3,
  7.00332514112805075473E3, 5.55923013010394962768E4]
def ndtrU : List Float := [3.35617141647503099647E1, 5.21357949780152679795E2, 4.59432382970980127987E3,
  2.26290000613890934246E4, 4.92673942608635921086E4]

def erfSmall (x : Float) : Float :=   -- |x| ≤ 1
  let z := x * x
  x * polevl z ndtrT / p1evl z ndtrU

def erfc (a : Float) : Float :=
  if a.isNaN then a else
  let x := a.abs
  if x < 1.0 then 1.0 - (if a < 0.0 then -(erfSmall (-a)) else erfSmall a)
  else
    let z := -a * a
    if z < -7.09782712893383996732E2 then (if a < 0.0 then 2.0 else 0.0)
    else
      let z := Float.exp z
      let (p, q) := if x < 8.0 then (polevl x ndtrP, p1evl x ndtrQ) else (polevl x ndtrR, p1evl x ndtrS)
      let y := (z * p) / q
      let y := if a < 0.0 then 2.0 - y else y
      if y != 0.0 then y else (if a < 0.0 then 2.0 else 0.0)

def erf (x : Float) : Float :=
  if x.isNaN then x
  else if x < 0.0 then (if x.abs > 1.0 then -(1.0 - erfc (-x)) else -(erfSmall (-x)))
  else if x.abs > 1.0 then 1.0 - erfc x else erfSmall x

def ndtr (a : Float) : Float :=
  if a.isNaN then a else
  let x := a * 0.70710678118654752440
  let z := x.abs
  if z < 0.70710678118654752440 then 0.5 + 0.5 * erf x
  else
    let y := 0.5 * erfc z
    if x > 0.0 then 1.0 - y else y

/-- `scipy.stats.norm().sf(x)` = `ndtr(-x)` -/
def normSf (x : Float) : Float := ndtr (-x)

/-- `scipy.special.logsumexp` on a 1-d array (scipy 1.14: max-shifted) -/
def logSumExp (a : List Float) : Float :=
  let amax := a.foldl (fun m x => if x > m then x else m) (-(1.0/0.0))
  let amax := if amax.isFinite then amax else 0.0
  let s := a.foldl (fun acc x => acc + Float.exp (x - amax)) 0.0
  Float.log s + amax

end Frouros.Ext
