/-
  Model of frouros/detectors/data_drift/batch/statistical_test/kuiper_test.py, lines 69-164:
  `KuiperTest._false_positive_probability` (the Paltani / Stephens series taken over from astropy, four branches)
  and `KuiperTest._kuiper` (statistic and p-value), as the code is written.

  How the Python objects are rendered
  * `N` (a Python float, always `X_size * Y_size / float(X_size + Y_size)` in the library) is carried as the pair
    `num den : Nat` with `N = ofNat num / ofNat den` evaluated in the carrier, exactly as `_kuiper` evaluates it.
    The two tests `N % 2 == 0`, `N % 2 == 1` ("N is an even / odd integer") and the choice between an integral and a
    fractional exponent are decided on `num`, `den` (`den ∣ num`, parity of `num / den`).  At `Float` this agrees with
    the float tests whenever `num < 2^53` and `num / den < 2^26` (then the rounded quotient is an integer iff the
    exact one is).
  * `scipy.special.factorial` of a float (`Γ(x+1)`, `N` is in general NOT an integer: `n = m = 3` gives `N = 1.5`) is
    the external function `fact`, an explicit argument (cf. `FrourosModel/Ext.lean`: external routines are inputs).
    `factFloat` below is a Float stand-in for the driver.
  * `x ** y` (C `pow` through NumPy): for an integral exponent it is `ipow` (repeated multiplication, reciprocal
    for a negative exponent; defined for every base); for a NON-integral exponent it is `exp (y * log x)`, which at
    `Float` is NaN for a negative base exactly like NumPy's scalar power (`RuntimeWarning: invalid value encountered
    in scalar power`), `0` for base `0` and `y > 0`, `inf` for base `0` and `y < 0`.  (A Python *float* base would
    give a complex number; the detector always passes the `np.float64` returned by `ks_2samp`.)  Over ℝ the value of
    `exp (y * log x)` for `x < 0` is junk (`Real.log x = Real.log |x|`); theorems state the sign of the base.
  * `np.arange(np.floor(x) + 1)` is `List.range (floorNat x bound + 1)`, `np.arange(1, stop)` is
    `arangeFrom1 stop bound` (`1, 2, …` while `k < stop`); both take an explicit search bound that is never reached
    in the branch where they are used (`C12b.floorNat_spec`, `C12b.arange_complete`).
  * `scipy.special.comb(N, t)` is only evaluated for an integral `N` (third branch) and is `ofNat (chooseFast N t)`.
  * `ndarray.sum()` is the left fold (NumPy sums fewer than 8 terms left to right; longer arrays pairwise – a
    rounding-level difference at `Float`).
-/
import FrourosModel.Num
import FrourosModel.KS
import FrourosModel.Perm
namespace Frouros.Kuiper
open Frouros
variable {α : Type} [Num α]

def sum (l : List α) : α := l.foldl (· + ·) Num.zero

@[inline] def three : α := Num.ofNat 3

/-- `x ** e` for an integral exponent `e` -/
def ipow (x : α) (e : Int) : α :=
  if e < 0 then Num.one / Num.npow x (-e).toNat else Num.npow x e.toNat

/-- "`N = num/den` is an integer" -/
def isInt (num den : Nat) : Bool := num % den == 0
/-- `N % 2 == 0` -/
def isEvenInt (num den : Nat) : Bool := isInt num den && (num / den) % 2 == 0
/-- `N % 2 == 1` -/
def isOddInt (num den : Nat) : Bool := isInt num den && (num / den) % 2 == 1

/-- `x ** (N - k)` for `N = num/den` and a literal `k` -/
def powN (x : α) (num den k : Nat) : α :=
  if isInt num den then ipow x (((num / den : Nat) : Int) - (k : Int))
  else Num.exp (((Num.ofNat num : α) / Num.ofNat den - Num.ofNat k) * Num.log x)

/-- `np.floor x` as a natural number, searched in `0 … bound` -/
def floorNat (x : α) (bound : Nat) : Nat :=
  ((List.range bound).takeWhile (fun t => Num.le (Num.ofNat (t + 1) : α) x)).length

/-- `np.arange(1, stop)` (at most `bound` elements) -/
def arangeFrom1 (stop : α) (bound : Nat) : List Nat :=
  ((List.range bound).map (· + 1)).takeWhile (fun k => Num.lt (Num.ofNat k : α) stop)

/-- line 89: `1.0 - factorial(N) * (D - 1.0 / N) ** (N - 1)` -/
def fppSmall (fact : α → α) (D : α) (num den : Nat) : α :=
  let N : α := Num.ofNat num / Num.ofNat den
  Num.one - fact N * powN (D - Num.one / N) num den 1

/-- lines 92-100 -/
def fppMid (fact : α → α) (D : α) (num den : Nat) : α :=
  let N : α := Num.ofNat num / Num.ofNat den
  let k := -(N * D - Num.one) / Num.two
  let r := Num.sqrt (Num.npow k 2 - Num.npow (N * D - Num.two) 2 / Num.two)
  let a := -k + r
  let b := -k - r
  Num.one - (fact (N - Num.one)
      * (powN b num den 1 * (Num.one - a) - powN a num den 1 * (Num.one - b))
      / powN N num den 2
      / (b - a))

/-- one term `Tt * term1 * term2` of lines 104-118 (`N` integral, `Nn = num / den`) -/
def stephensTerm (D : α) (num den : Nat) (ti : Nat) : α :=
  let Nn : Nat := num / den
  let N : α := Num.ofNat num / Num.ofNat den
  let t : α := Num.ofNat ti
  let y := D + t / N
  let Tt := ipow y ((ti : Int) - 3) * (
      Num.npow y 3 * N
      - Num.npow y 2 * t * (three - Num.two / N)
      + y * t * (t - Num.one) * (three - Num.two / N) / N
      - t * (t - Num.one) * (t - Num.two) / Num.npow N 2)
  let term1 : α := Num.ofNat (Perm.chooseFast Nn ti)
  let term2 := ipow (Num.one - D - t / N) ((Nn : Int) - (ti : Int) - 1)
  -- `term1[(term1 == np.inf) & (term2 == 0)] = 0.0`  (`1/0` is `inf` at Float; over ℝ the mask only rewrites 0 to 0)
  let term1 := if Num.beq term1 (Num.one / Num.zero) && Num.beq term2 Num.zero then Num.zero else term1
  Tt * term1 * term2

/-- lines 104-118: Stephens' finite sum -/
def fppStephens (D : α) (num den : Nat) : α :=
  let N : α := Num.ofNat num / Num.ofNat den
  let T := floorNat (N * (Num.one - D)) (num / den)
  sum ((List.range (T + 1)).map (stephensTerm D num den))

/-- lines 120-131: the asymptotic series, cut where `exp(-2 m² z²)` would underflow -/
def fppAsym (D : α) (num den : Nat) : α :=
  let N : α := Num.ofNat num / Num.ofNat den
  let z := D * Num.sqrt N
  let ms := arangeFrom1 (Num.ofDec 1882 2 / z) (7 * (num / den + 1))
  let S1 := sum (ms.map (fun mi =>
    let m : α := Num.ofNat mi
    Num.two * (Num.ofNat 4 * Num.npow m 2 * Num.npow z 2 - Num.one) * Num.exp (-Num.two * Num.npow m 2 * Num.npow z 2)))
  let S2 := sum (ms.map (fun mi =>
    let m : α := Num.ofNat mi
    Num.npow m 2 * (Num.ofNat 4 * Num.npow m 2 * Num.npow z 2 - three) * Num.exp (-Num.two * Num.npow m 2 * Num.npow z 2)))
  S1 - Num.ofNat 8 * D / three * S2

/-- `KuiperTest._false_positive_probability(D, N)` with `N = num/den` -/
def fpp (fact : α → α) (D : α) (num den : Nat) : α :=
  let N : α := Num.ofNat num / Num.ofNat den
  if Num.lt D (Num.two / N) then fppSmall fact D num den
  else if Num.lt D (three / N) then fppMid fact D num den
  else if (Num.gt D (Num.ofDec 5 1) && isEvenInt num den)
      || (Num.gt D ((N - Num.one) / (Num.two * N)) && isOddInt num den) then fppStephens D num den
  else fppAsym D num den

/-- `MAX_AUTO_N` of `scipy.stats.ks_2samp`: with the default `method="auto"` the exact mode is attempted iff
`max(n1, n2) <= 10000` -/
def maxAutoN : Nat := 10000

/-- `ks_2samp(X, Y, alternative="two-sided").statistic` as scipy RETURNS it (`_stats_py.py`, `ks_2samp` and
`_attempt_exact_2kssamp`).  With the default `method="auto"` and `max(n, m) ≤ 10000` scipy enters the exact mode, which
renormalises the raw ECDF difference `d` onto the lattice before anything else and returns the renormalised value even
when the exact p-value computation fails:

    lcm = (n1 // g) * n2;  h = int(np.round(d * lcm));  d = h * 1.0 / lcm

Here `h` is `KS.hTwoSided X Y` (computed on integers: the largest `|c_X(z)·(lcm/n) − c_Y(z)·(lcm/m)|` over the pooled
sample; `np.round(d * lcm)` recovers exactly this integer because the rounding error of `d * lcm` is below `1e-7` for
`lcm ≤ 10^8`), `Nat.lcm n m = n * m / gcd n m = (n // g) * m`, and `h * 1.0 / lcm` is ONE correctly rounded division of two
exactly represented integers (`h ≤ lcm ≤ 10^8 < 2^53`): at `Float` the value below is bit-identical to scipy's.  The raw
difference `KS.statistic` (what frouros' own `KSTest._calculate_statistic` returns) differs from it by an ulp on most
inputs, which matters here because `fpp` is discontinuous exactly on that lattice.  For `max(n, m) > 10000` scipy uses
the asymptotic mode and returns the raw difference.  Over ℝ the two expressions are equal (`C12.kuiper_statistic_is_ks`). -/
def ks2sampStatistic (X Y : List α) : α :=
  if max X.length Y.length ≤ maxAutoN then
    Num.ofNat (KS.hTwoSided X Y) / Num.ofNat (Nat.lcm X.length Y.length)
  else KS.statistic X Y

/-- `KuiperTest._kuiper(X, Y)`: `(statistic, p_value)`.  The statistic is `ks_2samp(X, Y, "two-sided").statistic`
(`ks2sampStatistic`; the preceding `np.sort` calls are absorbed: `KS.hTwoSided` / `KS.statistic` count with `countLe`),
i.e. the Kolmogorov–Smirnov `D = max(D⁺, D⁻)`, not Kuiper's `V = D⁺ + D⁻`.  (`ks_2samp` raises `ValueError` for an
empty sample; the model then divides by `lcm = 0`; the theorems assume both samples non-empty.) -/
def kuiper (fact : α → α) (X Y : List α) : α × α :=
  let statistic := ks2sampStatistic X Y
  let num := X.length * Y.length        -- sample_effective_size = X_size * Y_size / float(X_size + Y_size)
  let den := X.length + Y.length
  (statistic, fpp fact statistic num den)

/-! ### Float stand-in for `scipy.special.factorial` (driver only; not used by any theorem) -/
/-- `Γ(x+1)`: exact product for integral `0 ≤ x ≤ 170`, otherwise the Lanczos approximation (g = 7, 9 coefficients,
relative error ≈ 1e-14); `0` for negative `x` as scipy's `factorial` -/
def factFloat (x : Float) : Float :=
  if x.isNaN then x
  else if x < 0.0 then 0.0
  else if x == x.floor && x ≤ 170.0 then
    (List.range x.toUInt64.toNat).foldl (fun acc i => acc * Float.ofNat (i + 1)) 1.0
  else
    let c : List Float := [676.5203681218851, -1259.1392167224028, 771.32342877765313, -176.61502916214059,
      12.507343278686905, -0.13857109526572012, 9.9843695780195716e-6, 1.5056327351493116e-7]
    let s := (c.foldl (fun (acc : Float × Float) ci => (acc.1 + ci / (x + acc.2), acc.2 + 1.0))
      (0.99999999999980993, 1.0)).1
    let t := x + 7.5
    Float.sqrt (2.0 * 3.141592653589793) * Float.pow t (x + 0.5) * Float.exp (-t) * s

end Frouros.Kuiper
