/-
  Driver handlers for the non-detector parts of the model: KS, MMD, distances, permutation p-values,
  queues and incremental statistics, configuration tables, batch protocol, download, SEA, history.
  Every handler is a pure function from the argument words to one output line (plus, for the
  stateful ones, a new state).
-/
import FrourosModel.Dets
import FrourosModel.MMD
import FrourosModel.Hist
import FrourosModel.Perm
import FrourosModel.Batch
import FrourosModel.Config
import FrourosModel.Misc
import FrourosModel.Tests2
import FrourosModel.StreamKS
import FrourosModel.Kuiper
import FrourosModel.Kwargs
import FrourosModel.Synth2
import FrourosModel.Heap
namespace Frouros
open Wire

def splitAt' (l : List Float) (n : Nat) : List Float × List Float := (l.take n, l.drop n)

/-- split a flat list into rows of `dim` values (`dim = 0` means a 1-d array: rows of one value) -/
def rowsOf (dim : Nat) (l : List Float) : List (List Float) :=
  let d := if dim == 0 then 1 else dim
  let rec go (fuel : Nat) (l : List Float) : List (List Float) :=
    match fuel with
    | 0 => []
    | fuel + 1 => if l.isEmpty then [] else l.take d :: go fuel (l.drop d)
  go l.length l

def optNat (s : String) : Option Nat := if s == "-" then none else s.toNat?

/-! ### stateless commands -/
def cmdKS (args : List String) : String :=
  match args with
  | n :: _m :: rest =>
    let n := n.toNat!
    let xs := parseFloats rest
    let (r, t) := splitAt' xs n
    let h := KS.hTwoSided r t
    s!"x{hexOfFloat (KS.statistic r t)} {h} x{hexOfFloat (KS.pExactFloat r.length t.length h)}"
  | _ => "bad-op"

def cmdMMD (args : List String) : String :=
  match args with
  | dim :: n :: _m :: cs :: sigma :: rest =>
    let dim := dim.toNat!; let n := n.toNat!
    let sg := (floatOfHex? sigma).getD 1.0
    let rows := rowsOf dim (parseFloats rest)
    let (xs, ys) := (rows.take n, rows.drop n)
    let k := MMD.rbf sg
    let cs := optNat cs
    let plain := MMD.mmd k cs xs ys none
    let pre := MMD.mmd k cs xs ys (some (MMD.expectedK k (cs.getD xs.length) xs))
    s!"x{hexOfFloat plain} x{hexOfFloat pre}"
  | _ => "bad-op"

def fopt (o : Option Float) : String := match o with | none => "inf" | some v => "x" ++ hexOfFloat v

def cmdDist (args : List String) : String :=
  match args with
  | name :: nb :: n :: _m :: rest =>
    let nb := nb.toNat!; let n := n.toNat!
    let (r, t) := splitAt' (parseFloats rest) n
    let v : Float := match name with
      | "psi" => Hist.psi 2.2250738585072014e-308 r t nb
      | "hellinger" => Hist.hellinger r t nb
      | "bhattacharyya" => Hist.bhattacharyya r t nb
      | "hi" => Hist.hi r t nb
      | "emd" => Hist.emd r t
      | "energy" => Hist.energy r t
      | _ => 0.0/0.0
    "x" ++ hexOfFloat v
  | _ => "bad-op"

/-- `prob <js|kl> <nb> <lo> <hi> <ne1> <ne2> e1.. c1.. e2.. c2..` : auto-histograms as inputs -/
def cmdProb (args : List String) : String :=
  match args with
  | name :: nb :: lo :: hi :: ne1 :: ne2 :: rest =>
    let nb := nb.toNat!; let ne1 := ne1.toNat!; let ne2 := ne2.toNat!
    let lo := (floatOfHex? lo).getD 0.0; let hi := (floatOfHex? hi).getD 0.0
    let e1 := parseFloats (rest.take ne1)
    let c1 := parseNats ((rest.drop ne1).take (ne1 - 1))
    let rest2 := rest.drop (ne1 + (ne1 - 1))
    let e2 := parseFloats (rest2.take ne2)
    let c2 := parseNats ((rest2.drop ne2).take (ne2 - 1))
    let p := Hist.probabilities e1 c1 lo hi nb
    let q := Hist.probabilities e2 c2 lo hi nb
    if name == "js" then fopt (Hist.jsOf p q) else fopt (Hist.klOf p q)
  | _ => "bad-op"

def cmdPval (args : List String) : String :=
  match args with
  | [meth, b, m, mt] =>
    let b := b.toNat!; let m := m.toNat!; let mt := mt.toNat!
    let v : Float := match meth with
      | "conservative" => Perm.pConservative b m
      | "estimate" => Perm.pEstimate b m
      | "exact" => Perm.pExact b m mt
      | "approximate" => Perm.pApproximate b m mt
      | "approximate-spec" => Perm.pApproximateSpec b m mt
      | _ => 0.0/0.0
    "x" ++ hexOfFloat v
  | _ => "bad-op"

/-- `pv <method> <num_permutations> <total|-> <max_perms> <observed> <null statistics…>`: the callback's whole
p-value computation (`Perm.pValue`: count of null statistics ≥ observed, `auto` resolution, default or
user-given `total_num_permutations`, formula) -/
def cmdPv (args : List String) : String :=
  match args with
  | meth :: numPerm :: total :: maxPerms :: obs :: null =>
    let m : Option Perm.Method := match meth with
      | "auto" => some .auto | "conservative" => some .conservative | "exact" => some .exact
      | "approximate" => some .approximate | "estimate" => some .estimate | _ => none
    match m, floatOfHex? obs with
    | some m, some o =>
      let v : Float := Perm.pValue m numPerm.toNat! total.toNat? maxPerms.toNat! (parseFloats null) o
      s!"x{hexOfFloat v} {Perm.extreme (parseFloats null) o}"
    | _, _ => "bad-op"
  | _ => "bad-op"

/-- `t2 chi2 <corr> <k> o1 e1 o2 e2 …` | `t2 mwu n m xs…` | `t2 welch n m xs…` | `t2 kuiper n m xs…` | `t2 fwd pop|get <has_alt 0/1> <n_other>` -/
def cmdTests2 (args : List String) : String :=
  match args with
  | "chi2" :: corr :: rest =>
    let ns := parseNats rest
    let rec pairs (l : List Nat) (fuel : Nat) : List (Nat × Nat) :=
      match fuel, l with
      | fuel + 1, a :: b :: tl => (a, b) :: pairs tl fuel
      | _, _ => []
    "x" ++ hexOfFloat (Tests2.chi2Stat (α := Float) (corr == "1") (pairs ns ns.length))
  | "mwu" :: n :: _m :: rest =>
    let (r, t) := splitAt' (parseFloats rest) n.toNat!
    toString (Tests2.mwuTwice r t)
  | "welch" :: n :: _m :: rest =>
    let (r, t) := splitAt' (parseFloats rest) n.toNat!
    s!"x{hexOfFloat (Tests2.welchT r t)} x{hexOfFloat (Tests2.welchDf r t)}"
  | "kuiperp" :: n :: _m :: rest =>
    -- KuiperTest as coded: (statistic, p-value) = `_kuiper(X_ref, X)`; the factorial of a non-integral N is the driver's Lanczos stand-in
    let xs := parseFloats rest
    let (r, t) := (xs.take n.toNat!, xs.drop n.toNat!)
    let (st, p) := Kuiper.kuiper Kuiper.factFloat r t
    s!"x{hexOfFloat st} x{hexOfFloat p}"
  | "kuiper" :: n :: _m :: rest =>
    let (r, t) := splitAt' (parseFloats rest) n.toNat!
    s!"{Tests2.kuiperV r t} {Tests2.ksD r t} {KS.hPlus r t} {KS.hMinus r t}"
  | ["fwd", mode, hasAlt, nOther] =>
    let kw : List (String × String) := (if hasAlt == "1" then [("alternative", "less")] else []) ++
      (List.range nOther.toNat!).map (fun i => (s!"opt{i}", "v"))
    let r := if mode == "pop" then Tests2.forwardPop kw "two-sided" else Tests2.forwardGet kw "two-sided"
    match r with
    | .typeError => "err:Type"
    | .call kws => "call " ++ ",".intercalate (kws.map (fun p => p.1 ++ "=" ++ p.2))
  | _ => "bad-op"

def errStr (e : Option Err) : String := match e with | none => "ok" | some e => "err:" ++ e.name

def intArg (a : List String) (k : String) (d : Int) : Int := match arg? a k with | some v => v.toInt?.getD d | none => d

def cmdCfg (args : List String) : String :=
  match args with
  | cls :: a =>
    let f (k : String) (d : Float) : Float := argF a k d
    let i (k : String) (d : Int) : Int := intArg a k d
    match cls with
    | "DDM" => errStr (Config.ddm (f "warning_level" 2.0) (f "drift_level" 3.0) (i "min_num_instances" 30))
    | "RDDM" => errStr (Config.rddm (f "warning_level" 1.773) (f "drift_level" 2.258) (i "min_num_instances" 129)
        (i "max_concept_size" 40000) (i "min_concept_size" 7000) (i "max_num_instances_warning" 1400))
    | "EDDM" => errStr (Config.eddm (f "alpha" 0.95) (f "beta" 0.9) (f "level" 2.0) (i "min_num_misclassified_instances" 30))
    | "HDDMA" => errStr (Config.hddma (f "alpha_d" 0.001) (f "alpha_w" 0.005) (i "min_num_instances" 30))
    | "HDDMW" => errStr (Config.hddmw (f "alpha_d" 0.001) (f "alpha_w" 0.005) (f "lambda_" 0.05) (i "min_num_instances" 30))
    | "ECDDWT" => errStr (Config.ecdd (f "lambda_" 0.2) (f "warning_level" 0.5) (i "average_run_length" 400) (i "min_num_instances" 30))
    | "ADWIN" => errStr (Config.adwin (f "delta" 0.002) (i "clock" 32) (i "m" 5) (i "min_window_size" 5) (i "min_num_instances" 10))
    | "KSWIN" => errStr (Config.kswin (f "alpha" 0.0001) (i "min_num_instances" 100) (i "num_test_instances" 30))
    | "STEPD" => errStr (Config.stepd (f "alpha_d" 0.003) (f "alpha_w" 0.05) (i "min_num_instances" 30))
    | "CUSUM" => errStr (Config.cusum (f "lambda_" 50.0) (f "delta" 0.005) (i "min_num_instances" 30))
    | "PageHinkley" => errStr (Config.pageHinkley (f "lambda_" 50.0) (f "delta" 0.005) (f "alpha" 0.9999) (i "min_num_instances" 30))
    | "GeometricMovingAverage" => errStr (Config.gma (f "lambda_" 1.0) (f "alpha" 0.99) (i "min_num_instances" 30))
    | "Gaussian" => errStr (Config.gaussian (f "prior_var" 1.0) (f "data_var" 1.0))
    | "Permutation" =>
      let total : Option Int := match arg? a "total_num_permutations" with | some "-" => none | some v => v.toInt? | none => none
      errStr (Config.permutation (i "num_permutations" 100) total (i "num_jobs" (-1)) (argB a "method_ok" true))
    | "ResetCallback" => errStr (Config.resetCallback (f "alpha" 0.05))
    | "ChunkSize" =>
      let cs : Option Int := match arg? a "chunk_size" with | some "-" => none | some v => v.toInt? | none => none
      errStr (Config.chunkSize cs)
    | "PositiveInt" => errStr (Config.positiveInt (i "value" 1))
    | "Prequential" => errStr (Config.prequential (f "alpha" 1.0))
    | _ => "bad-class"
  | _ => "bad-op"

/-- `dl c h g t ok:<n>` … one word per mirror -/
def cmdDownload (args : List String) : String :=
  let outs := args.map (fun w =>
    match w with
    | "c" => Download.Outcome.connErr | "h" => .headNotOk | "g" => .getStatus | "t" => .timeout
    | w => .ok (match (w.drop 3).toString.toNat? with | some n => [n] | none => []))
  let r := Download.download outs
  s!"{bit r.error} {r.contacted} {r.file}"

/-- `dh <init> <op>…` : history of `download`/`load` calls on one object.  `<init>` = `none` | `f:<n>,<n>…`
(content of the target file beforehand); ops `d:<mirror>,<mirror>…` | `l:1` | `l:0` -/
def cmdDatasetHist (args : List String) : String :=
  let nums (w : String) : List Nat := (w.splitOn ",").filterMap String.toNat?
  let outcome (w : String) : Download.Outcome :=
    match w with
    | "c" => .connErr | "h" => .headNotOk | "g" => .getStatus | "t" => .timeout
    | w => .ok (match (w.drop 3).toString.toNat? with | some n => [n] | none => [])
  match args with
  | [] => "bad-op"
  | i :: ops =>
    let file : Option (List Nat) := if i == "none" then none else some (nums (i.drop 2).toString)
    let dops := ops.map (fun w =>
      if w.startsWith "d:" then Download.DOp.download (((w.drop 2).toString.splitOn ",").map outcome)
      else Download.DOp.load (w == "l:1"))
    let (s, outs) := Download.drun ⟨true, file⟩ dops
    let showOut : Download.DOut → String
      | .done => "ok" | .downloadError => "DownloadError" | .typeError => "TypeError"
      | .fileNotFound => "FileNotFoundError" | .readFileError => "ReadFileError" | .data b => s!"data{b}"
    let fileStr := match s.file with | none => "none" | some b => s!"{b}"
    s!"{" ".intercalate (outs.map showOut)} | {bit s.path} {fileStr}"

/-- `kw <kind> <num_bins> <chunk_size|-> [key=int …]`: the keyword dictionary the permutation callback passes to the stand-alone
statistic (`detector.statistical_kwargs`), keys sorted, for a detector constructed with these arguments (kernel named `k`) -/
def cmdKwargs (args : List String) : String :=
  match args with
  | kind :: nb :: cs :: extra =>
    let k : Option Kwargs.Kind := match kind with
      | "psi" => some .psi | "hellinger" => some .hellinger | "bhattacharyya" => some .bhattacharyya
      | "hi" => some .hiNormalizedComplement | "js" => some .js | "kl" => some .kl | "emd" => some .emd
      | "energy" => some .energy | "mmd" => some .mmd | _ => none
    match k with
    | none => "bad-op"
    | some k =>
      let ex : Kwargs.Dict := extra.filterMap (fun w => match w.splitOn "=" with
        | [a, b] => some (a, match b.toInt? with | some i => Kwargs.Val.int i | none => Kwargs.Val.str b)
        | _ => none)
      let c : Kwargs.Cfg := { kind := k, numBins := nb.toNat!, kernel := "k", chunkSize := cs.toNat?, extra := ex }
      let d := Kwargs.construct true c
      let showV : Kwargs.Val → String
        | .none => "None" | .int i => toString i | .float r => r | .str s => s | .fn n => n
      let items := (Kwargs.callbackKwargs d).map (fun kv => s!"{kv.1}={showV kv.2}")
      ";".intercalate (items.toArray.qsort (· < ·)).toList
  | _ => "bad-op"

/-! ### object-level scenarios: the sharing graph of the heap model, to be compared with Python's `is` relations -/
namespace HeapScenario
open Frouros.Heap

/-- trivial computations over `Nat` cells (the scenarios only observe WHICH cell is referenced from where) -/
def sem : Sem Nat Nat Nat :=
  { initOwn := id, initVars := id, stepOwn := fun _ o _ _ v => o + v, stepVars := fun _ _ x _ v => x + v,
    stepModel := fun _ _ _ p v => p + v, snap := fun o _ v => o + v, fitAux := id, stat := fun a r x => a + r + x,
    fires := fun a r => decide (r ≤ a) }

structure Env where
  h : Heap Nat := []
  names : List (String × Ref) := []
  failed : Bool := false

def Env.ref? (e : Env) (n : String) : Option Ref := (e.names.find? (·.1 == n)).map (·.2)
def Env.nameOf (e : Env) (r : Ref) : String := match e.names.find? (·.2 == r) with | some p => p.1 | none => "own"
def Env.bind (e : Env) (n : String) (p : Ref × Heap Nat) : Env := { e with h := p.2, names := e.names ++ [(n, p.1)] }
def Env.fail (e : Env) : Env := { e with failed := true }

def cbArg (e : Env) (w : String) : Option CbArg :=
  if w == "none" then some .none
  else if w.startsWith "s=" then (e.ref? (w.drop 2).toString).map .single
  else if w.startsWith "l=" then (e.ref? (w.drop 2).toString).map .list
  else none

/-- one scenario word (see `harness/props/c16.py::heap_scenarios`) -/
def stepWord (e : Env) (w : String) : Env :=
  if e.failed then e else
  match w.splitOn ":" with
  | ["cfg", n, m] =>
    if m == "m" then
      let (mr, h1) := alloc e.h (.data 0)
      { (e.bind n (alloc h1 (.config 0 (some mr)))) with names := e.names ++ [(n ++ ".model", mr), (n, h1.length)] }
    else e.bind n (alloc e.h (.config 0 none))
  | ["cb", n] => e.bind n (alloc e.h (.callback ⟨.history, none, []⟩))
  | ["rcb", n] => e.bind n (alloc e.h (.callback ⟨.resetTest 1000000, none, []⟩))
  | ["lst", n, items] =>
    let rs := ((items.splitOn ",").filter (· != "")).filterMap e.ref?
    e.bind n (alloc e.h (.list rs))
  | ["arr", n] => e.bind n (alloc e.h (.data 7))
  | ["det", n, c, a] =>
    match e.ref? c, cbArg e a with
    | some cr, some arg => match newDetector sem e.h cr arg with | some p => e.bind n p | none => e.fail
    | _, _ => e.fail
  | ["bdet", n, a] =>
    match cbArg e a with
    | some arg => match newBatch e.h arg 0 0 with | some p => e.bind n p | none => e.fail
    | none => e.fail
  | ["upd", d] => match e.ref? d with
    | some r => match update sem e.h r 1 with | some h => { e with h := h } | none => e.fail
    | none => e.fail
  | ["rst", d] => match e.ref? d with
    | some r => match reset sem e.h r with | some h => { e with h := h } | none => e.fail
    | none => e.fail
  | ["fit", d, x] => match e.ref? d, e.ref? x with
    | some r, some xr => match fit sem e.h r xr with | some h => { e with h := h } | none => e.fail
    | _, _ => e.fail
  | ["cmp", d, x] => match e.ref? d, e.ref? x with
    | some r, some xr => match compare sem e.h r xr with | some (_, h) => { e with h := h } | none => e.fail
    | _, _ => e.fail
  | ["brst", d] => match e.ref? d with
    | some r => match batchReset e.h r with | some h => { e with h := h } | none => e.fail
    | none => e.fail
  | _ => e.fail

/-- the facts observed: for every detector which objects its fields reference (by scenario name, `own` = an object
the scenario did not name, i.e. created by the constructor / reset), for every callback its back-reference and the
number of entries it recorded -/
def facts (e : Env) : String :=
  let dets := e.names.filterMap (fun (n, r) => match getDet e.h r with | some d => some (n, r, d) | none => none)
  let modelOf (d : Heap.Det Nat) (self : String) : String := match d.model with
    | none => "-"
    | some m =>
      let byName := e.nameOf m
      if byName != "own" then byName
      else match dets.find? (fun (n, _, o) => n != self && o.model == some m) with
        | some (n, _, _) => "shared:" ++ n
        | none => "own"
  let varsOf (d : Heap.Det Nat) (self : String) : String :=
    match dets.find? (fun (n, _, o) => n != self && o.vars == d.vars) with | some (n, _, _) => "shared:" ++ n | none => "own"
  let detFacts := dets.map (fun (n, _, d) =>
    let items := match getList e.h d.callbacks with | some l => ",".intercalate (l.map e.nameOf) | none => "?"
    s!"{n}[cfg={match d.config with | some c => e.nameOf c | none => "-"} cbs={e.nameOf d.callbacks} items={items} model={modelOf d n} vars={varsOf d n} xref={match d.xref with | some x => e.nameOf x | none => "-"}]")
  let cbFacts := e.names.filterMap (fun (n, r) => match getCb e.h r with
    | some c => some s!"{n}[det={match c.detector with | some d => e.nameOf d | none => "-"} n={c.hist.length}]"
    | none => none)
  " ".intercalate (detFacts ++ cbFacts)

def run (words : List String) : String :=
  let e := words.foldl stepWord {}
  if e.failed then "raised" else facts e
end HeapScenario

def cmdSea (args : List String) : String :=
  match args with
  | "ds" :: block :: noise :: n :: nf :: rest =>
    -- `list(SEA(seed).generate_dataset(block, noise, n))` on the recorded draws: `nf` floats, then the coin flips
    let fs := parseFloats (rest.take nf.toNat!)
    let cs := parseNats (rest.drop nf.toNat!)
    match Synth2.seaDataset (α := Float) block.toNat! ((floatOfHex? noise).getD 0.0) (n.toInt?.getD 0) ⟨fs, cs⟩ with
    | .error e => errStr (some e)
    | .ok none => "starved"
    | .ok (some (ss, t)) => s!"{" ".intercalate (ss.map (fun s => toString s.y))} | {t.floats.length} {t.coins.length}"
  | "dds" :: cls :: n :: rest =>
    match Synth2.dummyDataset (α := Float) (cls.toInt?.getD 0) (n.toInt?.getD 0) ⟨parseFloats rest, []⟩ with
    | .error e => errStr (some e)
    | .ok none => "starved"
    | .ok (some (ss, t)) => s!"{" ".intercalate (ss.map (fun s => toString s.y))} | {t.floats.length} {t.coins.length}"
  | "pulls" :: np :: nf :: rest =>
    -- interleaved `next()` calls on live SEA iterators sharing the generator: `np` pairs (block, noise), then floats, then coins
    let np := np.toNat!
    let pw := rest.take (2 * np)
    let rec pairs (l : List String) (fuel : Nat) : List (Float × Float) :=
      match fuel, l with
      | fuel + 1, b :: z :: tl =>
        ((match Synthetic.threshold (α := Float) b.toNat! with | some t => t | none => 0.0), (floatOfHex? z).getD 0.0) :: pairs tl fuel
      | _, _ => []
    let fs := parseFloats ((rest.drop (2 * np)).take nf.toNat!)
    let cs := parseNats ((rest.drop (2 * np)).drop nf.toNat!)
    match Synth2.seaPulls (pairs pw np) ⟨fs, cs⟩ with
    | none => "starved"
    | some (ss, t) => s!"{" ".intercalate (ss.map (fun s => toString s.y))} | {t.floats.length} {t.coins.length}"
  | ["label", block, noise, x0, x1, r, coin] =>
    let g (s : String) : Float := (floatOfHex? s).getD 0.0
    match Synthetic.threshold (α := Float) block.toNat! with
    | none => "err:InvalidBlock"
    | some thr => toString (Synthetic.seaLabel thr (g noise) (g x0) (g x1) (g r) coin.toNat!)
  | ["dummy", cls, x0, x1] =>
    let g (s : String) : Float := (floatOfHex? s).getD 0.0
    toString (Synthetic.dummyLabel cls.toNat! (g x0) (g x1))
  | ["check", block, n, noise] => errStr (Synthetic.seaCheck block.toNat! (n.toInt?.getD 0) ((floatOfHex? noise).getD 0.0))
  | ["dcheck", cls, n] => errStr (Synthetic.dummyCheck (cls.toInt?.getD 0) (n.toInt?.getD 0))
  | _ => "bad-op"

/-- `shape` words: `s:3,1` array of that shape, `na` non-array -/
def parseInput (w : String) (tag : Nat) : Batch.Input Nat :=
  if w == "na" then .nonArray
  else .array (((w.drop 2).toString.splitOn ",").filterMap String.toNat?) tag

/-! ### stateful: queues / statistics / batch protocol -/
structure Aux where
  q : CQ Float := CQ.init 1
  aq : AccQ := AccQ.init 1
  mean : Mean Float := Mean.init
  ewma : EWMA Float := EWMA.init 0.5
  cmean : CircMean Float := CircMean.init 1
  preq : Preq Float := Preq.init 1.0
  batch : Batch.State Nat := Batch.init
  bcfg : Batch.Cfg := { kind := .univariate }
  hist : History.State Nat := History.init
  smmd : MMD.Stream Float (List Float) := MMD.Stream.init 1 none
  sigma : Float := 1.0
  iks : IncKS.State Float := IncKS.init 1

def showQ (q : CQ Float) : String :=
  s!"{q.count} {bit q.isEmpty} {bit q.isFull} [" ++ " ".intercalate (q.toList.map (fun o => match o with | some v => "x" ++ hexOfFloat v | none => "-")) ++ "]"
def showAQ (a : AccQ) : String :=
  s!"{a.q.count} {a.numTrue} {a.numFalse} [" ++ " ".intercalate (a.q.toList.map (fun o => match o with | some true => "1" | some false => "0" | none => "-")) ++ "]"

def cmdAux (a : Aux) (args : List String) : Aux × String :=
  let fl (s : String) : Float := (floatOfHex? s).getD 0.0
  match args with
  | ["qn", cap] => let q := CQ.init cap.toNat!; ({ a with q := q }, showQ q)
  | ["qe", v] => (match a.q.enqueue (fl v) with
      | .error e => (a, "err:" ++ e.name)
      | .ok (ev, q) => ({ a with q := q }, "ret=" ++ (match ev with | some x => "x" ++ hexOfFloat x | none => "-") ++ " " ++ showQ q))
  | ["qd"] => (match a.q.dequeue with
      | .error e => (a, "err:" ++ e.name)
      | .ok (ev, q) => ({ a with q := q }, "ret=" ++ (match ev with | some x => "x" ++ hexOfFloat x | none => "-") ++ " " ++ showQ q))
  | ["qc"] => let q := a.q.clear; ({ a with q := q }, showQ q)
  | ["qk"] => (match a.q.keepLast with
      | .error e => (a, "err:" ++ e.name)
      | .ok q => ({ a with q := q }, showQ q))
  | ["an", cap] => let q := AccQ.init cap.toNat!; ({ a with aq := q }, showAQ q)
  | ["ae", v] => (match a.aq.enqueue (v == "1") with
      | .error e => (a, "err:" ++ e.name)
      | .ok q => ({ a with aq := q }, showAQ q))
  | ["ad"] => (match a.aq.dequeue with
      | .error e => (a, "err:" ++ e.name)
      | .ok (_, q) => ({ a with aq := q }, showAQ q))
  | ["ac"] => let q := a.aq.clear; ({ a with aq := q }, showAQ q)
  | ["ak"] => (match a.aq.keepLast with
      | .error e => (a, "err:" ++ e.name)
      | .ok q => ({ a with aq := q }, showAQ q))
  | ["mn"] => ({ a with mean := Mean.init }, "ok")
  | ["mu", v] => let m := a.mean.update (fl v); ({ a with mean := m }, s!"x{hexOfFloat m.mean} {m.n}")
  | ["en", al] => ({ a with ewma := EWMA.init (fl al) }, "ok")
  | ["eu", v] => let m := a.ewma.update (fl v); ({ a with ewma := m }, s!"x{hexOfFloat m.mean}")
  | ["cn", sz] => ({ a with cmean := CircMean.init sz.toNat! }, "ok")
  | ["cu", v] => (match a.cmean.update (fl v) with
      | .error e => (a, "err:" ++ e.name)
      | .ok m => ({ a with cmean := m }, s!"x{hexOfFloat m.mean} {m.n}"))
  | ["pn", al] => ({ a with preq := Preq.init (fl al) }, "ok")
  | ["pu", v] => let (r, p) := a.preq.call (fl v); ({ a with preq := p }, s!"x{hexOfFloat r}")
  | ["pr"] => ({ a with preq := a.preq.reset }, "ok")
  -- batch protocol
  | ["bn", kind, minS] =>
    ({ a with batch := Batch.init, bcfg := { kind := if kind == "u" then .univariate else .multivariate, minSamples := minS.toNat! } }, "ok")
  | ["bf", w, tag] => (match Batch.fit a.bcfg a.batch (parseInput w tag.toNat!) with
      | .error e => (a, "err:" ++ e.name)
      | .ok s => ({ a with batch := s }, "ok"))
  | ["bc", w, tag] => (match Batch.compare (fun r x => (r, x)) a.bcfg a.batch (parseInput w tag.toNat!) with
      | .error e => (a, "err:" ++ e.name)
      | .ok (r, s) => ({ a with batch := s }, s!"res={r.1},{r.2}"))
  | ["br"] => ({ a with batch := Batch.reset a.batch }, "ok")
  -- streaming MMD
  | ["sn", w, cs, sg] => ({ a with smmd := MMD.Stream.init w.toNat! (optNat cs), sigma := fl sg }, "ok")
  | "sf" :: dim :: rest =>
    ({ a with smmd := MMD.Stream.fit (MMD.rbf a.sigma) a.smmd (rowsOf dim.toNat! (parseFloats rest)) }, "ok")
  | "su" :: rest =>
    match a.smmd.updateErr with
    | some e => (a, errStr (some e))
    | none =>
    let (r, s) := MMD.Stream.update (MMD.rbf a.sigma) a.smmd (parseFloats rest)
    ({ a with smmd := s }, match r with | none => "-" | some v => "x" ++ hexOfFloat v)
  | ["sr"] => ({ a with smmd := a.smmd.reset }, "ok")
  -- incremental KS: `kn w` | `kf xs…` | `ku v` | `kr`
  | ["kn", w] => ({ a with iks := IncKS.init w.toNat! }, "ok")
  | "kf" :: rest => ({ a with iks := IncKS.fit a.iks (parseFloats rest) }, "ok")
  | ["ku", v] =>
    match IncKS.updateErr a.iks with
    | some e => (a, errStr (some e))
    | none =>
    let (r, s) := IncKS.update a.iks (fl v)
    ({ a with iks := s }, match r with
      | none => "-"
      | some r =>
        let p := match r.p with
          | none => "asym"
          | some p => "x" ++ hexOfFloat (if r.h == 0 then 1.0 else KS.ratioToFloat p.1 p.2)
        s!"x{hexOfFloat r.statistic} {r.h} {p}")
  | ["kr"] => ({ a with iks := IncKS.reset a.iks }, s!"{a.iks.n}")
  -- history callback: `hn` | `ha n1,n2,…` | `hu <tag>` | `hr`  → `name:len` per tracked list
  | "hn" :: _ => let h : History.State Nat := History.init; ({ a with hist := h }, showH h)
  | ["ha", names] => let h := History.addVars a.hist ((names.splitOn ",").filter (· != "")); ({ a with hist := h }, showH h)
  | ["hu", tag] => let h := History.onUpdateEnd a.hist (fun _ => tag.toNat!); ({ a with hist := h }, showH h)
  | ["hr"] => let h := History.reset a.hist; ({ a with hist := h }, showH h)
  | _ => (a, "bad-op")
where
  showH (h : History.State Nat) : String := " ".intercalate (h.hist.map (fun p => s!"{p.1}:{p.2.length}"))

end Frouros
