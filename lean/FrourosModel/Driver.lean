/-
  Line-protocol driver: one operation per input line, one result line per operation.
  Run natively (`.lake/build/bin/driver`) by the harness; the harness runs the real frouros code
  on the same operations and diffs the two streams.
-/
import FrourosModel.Ops
import FrourosModel.Branch
namespace Frouros
open Wire

structure Inst where
  ex : Det Float
  lo : Det FLo
  hi : Det FHi
  tie : Bool
  /-- branch tags of the exact-carrier run with their counts (coverage measurement only) -/
  br : List (String × Nat) := []

structure DState where
  insts : List (String × Inst) := []
  aux : Aux := {}

def bump (br : List (String × Nat)) (t : String) : List (String × Nat) :=
  if br.any (·.1 == t) then br.map (fun (k, c) => if k == t then (k, c + 1) else (k, c)) else br ++ [(t, 1)]

def DState.get? (st : DState) (id : String) : Option Inst := (st.insts.find? (·.1 == id)).map (·.2)
def DState.set (st : DState) (id : String) (i : Inst) : DState :=
  { st with insts := (id, i) :: st.insts.filter (·.1 != id) }

def agreeDiscrete (i : Inst) : Bool :=
  let a := i.ex.obs.map Tok.discrete
  a == i.lo.obs.map Tok.discrete && a == i.hi.obs.map Tok.discrete

/-- The three carriers run the same model text and differ ONLY in how comparisons within the tie margin are decided, so any difference
    between their observations - a discrete one, or a float that a near-tied comparison selected (which of two tied minimisers is kept) -
    means that a comparison taken so far was within the margin of a tie. -/
def agree (i : Inst) : Bool :=
  let a := i.ex.obs.map Tok.render
  a == i.lo.obs.map Tok.render && a == i.hi.obs.map Tok.render

/-- `tie=1` is printed while the carriers disagree.  A DISCRETE disagreement (a flag, a counter, a width) is sticky (`Inst.tie`): the three runs are on different
    paths from then on.  A disagreement in floats only (which of two tied candidates was kept) lasts as long as the floats differ: when a later strict comparison
    makes the three carriers select the same value again, their observations coincide bit for bit and the trace is compared again.  `reset` returns all three to
    `init`, so it clears the sticky bit too. -/
def renderObs (i : Inst) : String :=
  " ".intercalate (i.ex.obs.map Tok.render) ++ " tie=" ++ bit (i.tie || !agree i)

def parseTape (args : List String) : List Nat :=
  match arg? args "t" with
  | none => []
  | some s => (s.splitOn ",").filterMap String.toNat?

def handle (st : DState) (line : String) : DState × String :=
  match (line.trimAscii.toString.splitOn " ").filter (· != "") with
  | "n" :: id :: cls :: args =>
    match Det.create (α := Float) cls args, Det.create (α := FLo) cls args, Det.create (α := FHi) cls args with
    | some a, some b, some c =>
      let i : Inst := { ex := a, lo := b, hi := c, tie := false }
      (st.set id i, renderObs i)
    | _, _, _ => (st, "bad-class")
  | "uq" :: id :: hex :: args =>
    -- update WITHOUT rendering the observation (the implementation was not read after this update either)
    match st.get? id, floatOfHex? hex with
    | some i, some v =>
      let tape := parseTape args
      let ex' := i.ex.update v tape
      let i := { i with ex := ex', lo := i.lo.update v tape, hi := i.hi.update v tape, br := bump i.br (Det.branch i.ex ex' v) }
      let i := { i with tie := i.tie || !agreeDiscrete i }
      (st.set id i, ".")
    | _, _ => (st, "bad-op")
  | "u" :: id :: hex :: args =>
    match st.get? id, floatOfHex? hex with
    | some i, some v =>
      let tape := parseTape args
      let ex' := i.ex.update v tape
      let i := { i with ex := ex', lo := i.lo.update v tape, hi := i.hi.update v tape, br := bump i.br (Det.branch i.ex ex' v) }
      let i := { i with tie := i.tie || !agreeDiscrete i }
      (st.set id i, renderObs i)
    | _, _ => (st, "bad-op")
  | ["r", id] =>
    match st.get? id with
    | some i =>
      let i := { i with ex := i.ex.reset, lo := i.lo.reset, hi := i.hi.reset, tie := false, br := bump i.br (Det.resetTag i.ex) }
      (st.set id i, renderObs i)
    | none => (st, "bad-op")
  | ["bc", id] =>
    -- branch coverage of instance `id` so far: `tag=count` pairs (measurement only)
    match st.get? id with
    | some i => (st, "bc " ++ " ".intercalate (i.br.map (fun (k, c) => k ++ "=" ++ toString c)))
    | none => (st, "bc")
  | "ks" :: args => (st, cmdKS args)
  | "mmd" :: args => (st, cmdMMD args)
  | "dist" :: args => (st, cmdDist args)
  | "prob" :: args => (st, cmdProb args)
  | "pval" :: args => (st, cmdPval args)
  | "pv" :: args => (st, cmdPv args)
  | "kw" :: args => (st, cmdKwargs args)
  | "heap" :: args => (st, HeapScenario.run args)
  | "cfg" :: args => (st, cmdCfg args)
  | "dl" :: args => (st, cmdDownload args)
  | "dh" :: args => (st, cmdDatasetHist args)
  | "sea" :: args => (st, cmdSea args)
  | "t2" :: args => (st, cmdTests2 args)
  | "x" :: args => let (a, r) := cmdAux st.aux args; ({ st with aux := a }, r)
  | _ => (st, "bad-op")

partial def loop (h : IO.FS.Stream) (out : IO.FS.Stream) (st : DState) : IO Unit := do
  let line ← h.getLine
  if line.isEmpty then return ()
  let (st', res) := handle st line
  out.putStrLn res
  loop h out st'

end Frouros

def main : IO Unit := do
  let stdin ← IO.getStdin
  let stdout ← IO.getStdout
  Frouros.loop stdin stdout {}
