/-
  Model of frouros/detectors/concept_drift/streaming/change_detection/
  {base,cusum,page_hinkley,geometric_moving_average,bocd}.py
-/
import FrourosModel.Stats
namespace Frouros
open Num

/-! ## CUSUM family (BaseCUSUM) -/
namespace CUSUMFam
inductive Kind where | cusum | pageHinkley | gma
  deriving DecidableEq, Repr

structure Cfg (α : Type) where
  kind : Kind
  lambda : α
  delta : α      -- unused by gma
  alpha : α      -- unused by cusum
  minN : Nat

structure State (α : Type) where
  n : Nat
  drift : Bool
  mean : Mean α
  sum : α
  deriving BEq

variable {α : Type} [Num α]
def init : State α := ⟨0, false, Mean.init, Num.zero⟩

/-- `_update_sum` of the three subclasses; `m` is the running mean *including* `v` -/
def updateSum (c : Cfg α) (g m v : α) : α :=
  match c.kind with
  | .cusum => Num.max0 (g + v - m - c.delta)
  | .pageHinkley => c.alpha * g + (v - m - c.delta)
  | .gma => c.alpha * g + (Num.one - c.alpha) * (v - m)

def step (c : Cfg α) (s : State α) (v : α) : State α :=
  let n := s.n + 1
  let mean := s.mean.update v
  let g := updateSum c s.sum mean.mean v
  { n := n, mean := mean, sum := g, drift := decide (c.minN ≤ n) && Num.gt g c.lambda }

def reset (s : State α) : State α := { s with n := 0, drift := false, mean := Mean.init, sum := Num.zero }
end CUSUMFam

/-! ## BOCD with the Gaussian (known variance, unknown mean) model -/
namespace BOCD
/-- external routines used by BOCD -/
structure Fns (α : Type) where
  logSumExp : List α → α
  /-- `log(sqrt(2 pi))` -/
  logC : α

structure Cfg (α : Type) where
  priorMean : α
  priorVar : α
  dataVar : α
  logH : α         -- `np.log(hazard)`
  log1mH : α       -- `np.log(1 - hazard)`
  minN : Nat

structure State (α : Type) where
  n : Nat
  drift : Bool
  /-- last row of `log_r` (length n+1) -/
  row : List α
  logMessage : List α
  predMean : Option α
  predVar : Option α
  means : List α
  precs : List α

variable {α : Type} [Num α]

def init (c : Cfg α) : State α :=
  { n := 0, drift := false, row := [Num.zero], logMessage := [Num.zero], predMean := none,
    predVar := none, means := [c.priorMean], precs := [Num.one / c.priorVar] }

/-- `var_params = 1 / precision_params + data_var` -/
def varParams (c : Cfg α) (precs : List α) : List α := precs.map (fun p => Num.one / p + c.dataVar)

/-- `norm(mu, sd).logpdf(v)` as scipy computes it: `-(y^2)/2 - logC - log(sd)`, `y = (v - mu)/sd` -/
def normLogPdf (f : Fns α) (mu sd v : α) : α :=
  let y := (v - mu) / sd
  (-(Num.npow y 2)) / Num.two - f.logC - Num.log sd

/-- index of the first maximum (`np.argmax`) -/
def argmax : List α → Nat
  | [] => 0
  | x :: xs =>
    let rec go (best : α) (bi i : Nat) : List α → Nat
      | [] => bi
      | y :: ys => if Num.gt y best then go y i (i+1) ys else go best bi (i+1) ys
    go x 0 1 xs

def sumList (l : List α) : α := l.foldl (· + ·) Num.zero

def step (f : Fns α) (c : Cfg α) (s : State α) (v : α) : State α :=
  let n := s.n + 1
  let vars := varParams c s.precs
  let logPis := List.zipWith (fun mu var => normLogPdf f mu (Num.sqrt var) v) s.means vars
  let lpm := List.zipWith (· + ·) logPis s.logMessage
  let growth := lpm.map (· + c.log1mH)
  let cp := f.logSumExp (lpm.map (· + c.logH))
  let joint := cp :: growth
  let norm := f.logSumExp joint
  let row := joint.map (· - norm)
  -- model.update
  let newPrec := s.precs.map (· + Num.one / c.dataVar)
  let precs := (s.precs.headD Num.zero) :: newPrec
  let newMean := List.zipWith (fun m pn => m / pn)
      (List.zipWith (fun mu p => mu * p + v / c.dataVar) s.means s.precs) newPrec
  let means := (s.means.headD Num.zero) :: newMean
  -- predictions (step 9): weights = exp(current row), parameters after the update
  let probs := row.map Num.exp
  let predMean := sumList (List.zipWith (· * ·) probs means)
  let predVar := sumList (List.zipWith (· * ·) probs (varParams c precs))
  let drift := if c.minN ≤ n then argmax row != n else s.drift
  { n := n, drift := drift, row := row, logMessage := row, predMean := some predMean,
    predVar := some predVar, means := means, precs := precs }

def reset (c : Cfg α) (_s : State α) : State α := init c
end BOCD

end Frouros
