/-
  Object-level ("heap") model of how frouros detector, configuration and callback OBJECTS refer to
  each other.  Unlike the other model files (pure state machines, where two instances can never share
  anything) this one has a store of mutable cells addressed by references, so that aliasing IS
  expressible: the same configuration object given to two constructors, the caller's callbacks list
  stored as given, the BOCD model copied (or, in the variant, NOT copied) out of the configuration,
  `X_ref` stored as given.

  What is modelled is *which cell every constructor / method reads and writes, through which
  reference*; what is computed is abstract (`Sem`: arbitrary pure functions of the values read), the
  numerical content being the business of the other model files.  No imports: core Lean only.

  Python anchors (paths relative to /repo/frouros):
  * `detectors/base.py:23,35-53`             callbacks setter: `None -> []` (NEW list, :53), a single callback ->
                                             `[value]` (NEW list, :47), a list -> stored AS GIVEN (:51, no copy)
  * `detectors/concept_drift/base.py:80-91`  constructor: `check_callbacks` (:80), callbacks (:84), `self.config = config`
                                             (:85, setter :141 stores the object AS GIVEN), `additional_vars` (:86),
                                             `num_instances`/`drift` (:88-89), `callback.set_detector(self)` (:90-91)
  * `detectors/concept_drift/base.py:166-171` `reset`: counters, then `callback.reset()` for every callback
  * `detectors/concept_drift/base.py:182-203` `update`: (`on_update_start`: no-op), `_update` (:196), `on_update_end` of
                                             every callback (:197-200)
  * `.../change_detection/bocd.py:181`       `BOCDConfig.model` setter stores the model object AS GIVEN
  * `.../change_detection/bocd.py:233-240`   BOCD constructor: new `additional_vars` dict (:233),
                                             `self._model = copy.deepcopy(self.config.model)` (:240)
  * `.../change_detection/bocd.py:314-372`   BOCD `_update`: reads config scalars, own dict, own model (:318); writes own
                                             dict entries, `self._model.update(value)` (:352), counters
  * `.../change_detection/bocd.py:374-381`   BOCD `reset`: `super().reset()`, own dict entries, `deepcopy(self.config.model)`
                                             again (:381)
  * `callbacks/base.py:19-20,43-45`          callback fields `detector`, `logs`; `set_detector`
  * `callbacks/streaming/history.py:67-88,107-110` `on_update_end` reads `self.detector.num_instances/.drift/
                                             .additional_vars[...]` (:75-79), appends to its own lists; `reset` clears them
  * `detectors/data_drift/base.py:110-113,175,201-203` batch constructor; `X_ref` setter `self._X_ref = value` stores the
                                             array AS GIVEN; `reset`: `self.X_ref = None` only
  * `detectors/data_drift/batch/base.py:38-48,54,56-82` `check_callbacks`, `set_detector` loop (:47-48); `_fit`:
                                             `self.X_ref = X` (:54); `compare` (:56-82): `_compare` (:73) then
                                             `on_compare_end` of every callback (:74-79)
  * `detectors/data_drift/batch/distance_based/mmd.py:157` `_fit` also stores a pre-computation on the detector
  * `callbacks/batch/reset.py:63-81`         `on_compare_end`: `if p_value <= self.alpha: self.detector.reset()`

  Sharing graph to compare with Python `id()`s (model field -> Python attribute):
  `Det.config -> det._config`, `Det.callbacks -> det._callbacks` (the list object), list `items -> ` its elements,
  `Det.vars -> det._additional_vars` (or any other container created by the constructor), `Det.model -> det._model`,
  `Det.xref -> det._X_ref`, `Cb.detector -> cb.detector`, `config.model -> det._config._model`.

  Deliberate simplifications (none affects which cell is written through which reference):
  * the callbacks list is read once per method call, before `_update`/`reset` run (Python iterates over
    `self.callbacks` before AND after `_update`, which never rebinds or mutates the list);
  * constructors allocate list, containers, model copy, detector object in that order (Python creates the
    detector object first); `check_callbacks` is folded into the `set_detector` loop (a wrong item makes the
    constructor fail in both);
  * the dict/lists inside one callback (`history`, `logs`, which share their list objects) are one inline
    field `hist`; `add_additional_vars` (names only) is in `FrourosModel/Misc.lean`;
  * a failing method returns `none` (exception) and the store is then not observed.
-/
namespace Frouros.Heap

/-- a reference = Python `id()` of an object = index of its cell in the store -/
abbrev Ref := Nat

/-- the two callback classes modelled -/
inductive CbKind (D : Type) where
  /-- `HistoryConceptDrift` (a `BaseCallbackStreaming`) -/
  | history
  /-- `ResetStatisticalTest(alpha)` (a `BaseCallbackBatch`) -/
  | resetTest (alpha : D)
  deriving DecidableEq, Repr

def CbKind.isStreaming {D : Type} : CbKind D → Bool
  | .history => true
  | .resetTest _ => false

/-- callback object -/
structure Cb (D : Type) where
  kind : CbKind D
  /-- `self.detector`: back-reference, `None` until `set_detector` -/
  detector : Option Ref
  /-- `self.history` / `self.logs`: the recorded entries, owned by the callback -/
  hist : List D
  deriving DecidableEq, Repr

/-- detector object (`__dict__` of a concept-drift or of a batch data-drift detector) -/
structure Det (D : Type) where
  /-- `_config` (concept drift detectors; `none` for batch detectors) -/
  config : Option Ref
  /-- `_callbacks`: a list object -/
  callbacks : Ref
  /-- the detector's own mutable containers (`_additional_vars` dict, queues, lists; for a batch
  detector the auxiliary attributes written by `_fit`, e.g. MMD's `_expected_k_xx`) -/
  vars : Ref
  /-- BOCD `_model` -/
  model : Option Ref
  /-- `_X_ref` (batch detectors) -/
  xref : Option Ref
  /-- scalar attributes rebound on `self` (`_num_instances`, `drift`, …) -/
  own : D
  deriving DecidableEq, Repr

/-- a cell of the store -/
inductive Obj (D : Type) where
  /-- an object without outgoing references: NumPy array, dict/queue of scalars, a BOCD model object
  (its parameter arrays) -/
  | data (d : D)
  /-- a configuration object: immutable scalars and (BOCD) the reference to its `model` object -/
  | config (scalars : D) (model : Option Ref)
  /-- a Python list of callbacks -/
  | list (items : List Ref)
  | callback (c : Cb D)
  | detector (x : Det D)
  deriving DecidableEq, Repr

/-- outgoing references of a cell: the edges of the sharing graph (`id()` graph in Python) -/
def edges {D : Type} : Obj D → List Ref
  | .data _ => []
  | .config _ m => m.toList
  | .list items => items
  | .callback c => c.detector.toList
  | .detector x => x.config.toList ++ [x.callbacks, x.vars] ++ x.model.toList ++ x.xref.toList

/-- the store: cell `r` is `h[r]`; references `≥ h.length` are not allocated -/
abbrev Heap (D : Type) := List (Obj D)

variable {D V R : Type}

def read (h : Heap D) (r : Ref) : Option (Obj D) := h[r]?
/-- in-place mutation of an allocated cell (nothing happens on a dangling reference; the operations
below only write cells they have just read) -/
def write (h : Heap D) (r : Ref) (o : Obj D) : Heap D := h.set r o
/-- a new object: fresh reference -/
def alloc (h : Heap D) (o : Obj D) : Ref × Heap D := (h.length, h ++ [o])

/-! typed reads (`none` = the Python code would raise `AttributeError`/`TypeError`) -/
def getData (h : Heap D) (r : Ref) : Option D := match read h r with | some (.data d) => some d | _ => none
def getCfg (h : Heap D) (r : Ref) : Option (D × Option Ref) :=
  match read h r with | some (.config sc m) => some (sc, m) | _ => none
def getList (h : Heap D) (r : Ref) : Option (List Ref) := match read h r with | some (.list l) => some l | _ => none
def getCb (h : Heap D) (r : Ref) : Option (Cb D) := match read h r with | some (.callback c) => some c | _ => none
def getDet (h : Heap D) (r : Ref) : Option (Det D) := match read h r with | some (.detector x) => some x | _ => none

/-- `for callback in self.callbacks: …` -/
def forEach (f : Heap D → Ref → Option (Heap D)) : Heap D → List Ref → Option (Heap D)
  | h, [] => some h
  | h, c :: cs => match f h c with | some h' => forEach f h' cs | none => none

/-- the pure computations (arbitrary): the model only fixes which values they are given -/
structure Sem (D V R : Type) where
  /-- constructor / `reset`: scalar attributes, own containers, from the config scalars -/
  initOwn : D → D
  initVars : D → D
  /-- `_update(value)`: new scalar attributes / own containers from (config scalars, own scalars, own
  containers, own model parameters if any, value) -/
  stepOwn : D → D → D → Option D → V → D
  stepVars : D → D → D → Option D → V → D
  /-- `self._model.update(value)`: new parameter arrays of the detector's model -/
  stepModel : D → D → D → D → V → D
  /-- entry appended by `HistoryConceptDrift.on_update_end` from (detector scalars, detector containers, value) -/
  snap : D → D → V → D
  /-- `_fit` pre-computation stored on the batch detector (from the reference data) -/
  fitAux : D → D
  /-- `_compare`: from (auxiliary attributes, reference data, test data) -/
  stat : D → D → D → R
  /-- `result.p_value <= self.alpha` -/
  fires : D → R → Bool

/-- the `callbacks` argument of a constructor -/
inductive CbArg where
  | none
  | single (c : Ref)
  | list (l : Ref)
  deriving DecidableEq, Repr

/-- `BaseDetector.callbacks` setter (`detectors/base.py:38-54`) -/
def storeCallbacks (h : Heap D) : CbArg → Option (Ref × Heap D)
  | .none => some (alloc h (.list []))
  | .single c => some (alloc h (.list [c]))
  | .list l => match getList h l with | some _ => some (l, h) | none => none

/-- `check_callbacks` (class test) + `callback.set_detector(detector=self)` -/
def setDetector (streaming : Bool) (d : Ref) (h : Heap D) (c : Ref) : Option (Heap D) :=
  match getCb h c with
  | some cb => if cb.kind.isStreaming = streaming then some (write h c (.callback { cb with detector := some d })) else none
  | none => none

/-- `copy.deepcopy(self.config.model)` (`copy = true`, the code as written) or, in the VARIANT
`copy = false`, `self.config.model` itself -/
def copyModel (copy : Bool) (h : Heap D) : Option Ref → Option (Option Ref × Heap D)
  | none => some (none, h)
  | some m =>
    if copy then
      match getData h m with
      | some p => some (some h.length, h ++ [.data p])
      | none => none
    else some (some m, h)

/-! ### concept-drift (streaming) detectors -/

/-- `Detector(config=cfg, callbacks=arg)` -/
def newDetectorG (copy : Bool) (S : Sem D V R) (h : Heap D) (cfg : Ref) (arg : CbArg) : Option (Ref × Heap D) :=
  match getCfg h cfg with
  | none => none
  | some (sc, cm) =>
  match storeCallbacks h arg with
  | none => none
  | some (cbs, h1) =>
  match getList h1 cbs with
  | none => none
  | some items =>
  let vars := h1.length
  let h2 := h1 ++ [.data (S.initVars sc)]
  match copyModel copy h2 cm with
  | none => none
  | some (model, h3) =>
  let d := h3.length
  let h4 := h3 ++ [.detector ⟨some cfg, cbs, vars, model, none, S.initOwn sc⟩]
  match forEach (setDetector true d) h4 items with
  | none => none
  | some h5 => some (d, h5)

/-- `HistoryConceptDrift.on_update_end(value)`: reads the detector it points BACK to -/
def onUpdateEnd (S : Sem D V R) (v : V) (h : Heap D) (c : Ref) : Option (Heap D) :=
  match getCb h c with
  | none => none
  | some cb =>
  match cb.detector with
  | none => none
  | some det =>
  match getDet h det with
  | none => none
  | some x =>
  match getData h x.vars with
  | none => none
  | some vd => some (write h c (.callback { cb with hist := cb.hist ++ [S.snap x.own vd v] }))

/-- `callback.reset()` (history lists cleared; `ResetStatisticalTest.reset` does nothing) -/
def cbReset (h : Heap D) (c : Ref) : Option (Heap D) :=
  match getCb h c with
  | none => none
  | some cb => some (write h c (.callback { cb with hist := match cb.kind with | .history => [] | .resetTest _ => cb.hist }))

/-- `_update(value)` alone: the detector's own computation (no callback involved) -/
def updateCore (S : Sem D V R) (h : Heap D) (d : Ref) (v : V) : Option (Heap D) :=
  match getDet h d with
  | none => none
  | some x =>
  match x.config with
  | none => none
  | some cfg =>
  match getCfg h cfg with
  | none => none
  | some (sc, _) =>
  match getData h x.vars with
  | none => none
  | some vd =>
  match x.model with
  | none =>
    some (write (write h d (.detector { x with own := S.stepOwn sc x.own vd none v }))
      x.vars (.data (S.stepVars sc x.own vd none v)))
  | some m =>
    match getData h m with
    | none => none
    | some p =>
      some (write (write (write h d (.detector { x with own := S.stepOwn sc x.own vd (some p) v }))
        x.vars (.data (S.stepVars sc x.own vd (some p) v)))
        m (.data (S.stepModel sc x.own vd p v)))

/-- the callback list of a detector -/
def callbacksOf (h : Heap D) (d : Ref) : Option (List Ref) :=
  match getDet h d with
  | none => none
  | some x => getList h x.callbacks

/-- `update(value)`: `_update`, then `on_update_end` of every callback -/
def update (S : Sem D V R) (h : Heap D) (d : Ref) (v : V) : Option (Heap D) :=
  match callbacksOf h d with
  | none => none
  | some items =>
  match updateCore S h d v with
  | none => none
  | some h1 => forEach (onUpdateEnd S v) h1 items

/-- `reset()` without the callback loop -/
def resetCoreG (copy : Bool) (S : Sem D V R) (h : Heap D) (d : Ref) : Option (Heap D) :=
  match getDet h d with
  | none => none
  | some x =>
  match x.config with
  | none => none
  | some cfg =>
  match getCfg h cfg with
  | none => none
  | some (sc, cm) =>
  match getData h x.vars with
  | none => none
  | some _ =>
  match copyModel copy h cm with
  | none => none
  | some (model, h1) =>
    some (write (write h1 d (.detector { x with own := S.initOwn sc, model := model }))
      x.vars (.data (S.initVars sc)))

/-- `reset()`: counters and `callback.reset()` (base class), own containers re-initialised in place,
model re-copied from the configuration (BOCD) -/
def resetG (copy : Bool) (S : Sem D V R) (h : Heap D) (d : Ref) : Option (Heap D) :=
  match callbacksOf h d with
  | none => none
  | some items =>
  match resetCoreG copy S h d with
  | none => none
  | some h1 => forEach cbReset h1 items

/-- the code as written: deep copy in the constructor and in `reset` -/
abbrev newDetector (S : Sem D V R) := newDetectorG true S
abbrev reset (S : Sem D V R) := resetG true S
abbrev resetCore (S : Sem D V R) := resetCoreG true S

/-- operations of a streaming history -/
inductive SOp (V : Type) where
  | update (v : V)
  | reset

def applyG (copy : Bool) (S : Sem D V R) (d : Ref) (h : Heap D) : SOp V → Option (Heap D)
  | .update v => update S h d v
  | .reset => resetG copy S h d

/-- the same two operations with the callback loops removed ("no callback attached") -/
def applyCoreG (copy : Bool) (S : Sem D V R) (d : Ref) (h : Heap D) : SOp V → Option (Heap D)
  | .update v => updateCore S h d v
  | .reset => resetCoreG copy S h d

/-- a history of operations (events of any type `E`, e.g. `SOp V` for one detector, or operations
addressed to one of several detectors); stops with `none` at the first operation that raises -/
def runOps {E : Type} (f : Heap D → E → Option (Heap D)) : Heap D → List E → Option (Heap D)
  | h, [] => some h
  | h, o :: os => match f h o with | some h' => runOps f h' os | none => none

/-- an operation addressed to the first (`false`) or to the second (`true`) of two detectors -/
def applyTo (S : Sem D V R) (d1 d2 : Ref) (h : Heap D) (e : Bool × SOp V) : Option (Heap D) :=
  applyG true S (if e.1 then d2 else d1) h e.2

/-! ### batch data-drift detectors -/

/-- `Detector(callbacks=arg)`; `aux0`: the auxiliary attributes before `fit` -/
def newBatch (h : Heap D) (arg : CbArg) (aux0 own0 : D) : Option (Ref × Heap D) :=
  match storeCallbacks h arg with
  | none => none
  | some (cbs, h1) =>
  match getList h1 cbs with
  | none => none
  | some items =>
  let vars := h1.length
  let h2 := h1 ++ [.data aux0]
  let d := h2.length
  let h3 := h2 ++ [.detector ⟨none, cbs, vars, none, none, own0⟩]
  match forEach (setDetector false d) h3 items with
  | none => none
  | some h4 => some (d, h4)

/-- `fit(X)`: `X` is the caller's array object; `self.X_ref = X` stores THAT reference -/
def fit (S : Sem D V R) (h : Heap D) (d x : Ref) : Option (Heap D) :=
  match getDet h d with
  | none => none
  | some dx =>
  match getData h x with
  | none => none
  | some xd =>
  match getData h dx.vars with
  | none => none
  | some _ => some (write (write h d (.detector { dx with xref := some x })) dx.vars (.data (S.fitAux xd)))

/-- `reset()` of a data-drift detector: `self.X_ref = None` -/
def batchReset (h : Heap D) (d : Ref) : Option (Heap D) :=
  match getDet h d with
  | none => none
  | some dx => some (write h d (.detector { dx with xref := none }))

/-- `ResetStatisticalTest.on_compare_end(result, …)` (history callbacks ignore the call) -/
def onCompareEnd (S : Sem D V R) (r : R) (h : Heap D) (c : Ref) : Option (Heap D) :=
  match getCb h c with
  | none => none
  | some cb =>
  match cb.kind with
  | .history => some h
  | .resetTest alpha =>
    if S.fires alpha r then
      match cb.detector with
      | none => none
      | some det => batchReset h det
    else some h

/-- `_compare(X)`: the value computed, from the cells it reads (`none`: `MissingFitError` etc.) -/
def compareCore (S : Sem D V R) (h : Heap D) (d x : Ref) : Option R :=
  match getDet h d with
  | none => none
  | some dx =>
  match dx.xref with
  | none => none
  | some rx =>
  match getData h rx, getData h x, getData h dx.vars with
  | some rd, some xd, some aux => some (S.stat aux rd xd)
  | _, _, _ => none

/-- `compare(X)`: result, then `on_compare_end` of every callback -/
def compare (S : Sem D V R) (h : Heap D) (d x : Ref) : Option (R × Heap D) :=
  match callbacksOf h d with
  | none => none
  | some items =>
  match compareCore S h d x with
  | none => none
  | some r =>
  match forEach (onCompareEnd S r) h items with
  | none => none
  | some h' => some (r, h')

/-- VARIANT (for falsifiability): a `compare` that caches the last test sample on the detector -/
def compareCaching (S : Sem D V R) (h : Heap D) (d x : Ref) : Option (R × Heap D) :=
  match compare S h d x, getDet h d, getData h x with
  | some (r, h'), some dx, some xd => some (r, write h' dx.vars (.data xd))
  | _, _, _ => none

end Frouros.Heap

/-!
  ## Appended for `FrourosProofs/Props/C16c.lean` (nothing above is changed)

  * `View` / `view`: the observable projection of a streaming detector, read THROUGH its references
    (so that it does not depend on allocation addresses);
  * `updatePre`: VARIANT of `update` running the history callbacks BEFORE `_update`
    (DESIGN Appendix B mutant "appending before `_update`");
  * `onUpdateEndMeddling` / `updateMeddling`: VARIANT streaming callback that WRITES the detector it
    points back to (no such callback exists in frouros: the falsifying variant of transparency);
  * `drawUpdate`, `GOp`, `applyGen`, `applyGenTo`: a designated `data` cell for NumPy's GLOBAL generator
    (`np.random.*` without a `Generator` object: KSWIN `_update` -> `np.random.choice`,
    `.../window_based/kswin.py`; `utils/stats.py:248` `np.random.seed`), read and advanced by `draw` operations.
-/
namespace Frouros.Heap

variable {D V R : Type}

/-- what a caller can observe of a streaming detector: its scalar attributes, the contents of its own
containers, the parameters of its own model (`none`: no model; `some none`: dangling), and for every
callback of its list, in order, the recorded entries (`none`: not a callback object) -/
structure View (D : Type) where
  own : D
  vars : D
  model : Option (Option D)
  hists : List (Option (List D))
  deriving DecidableEq, Repr

/-- the projection (`none`: `d` is not a well-formed detector object) -/
def view (h : Heap D) (d : Ref) : Option (View D) :=
  match getDet h d with
  | none => none
  | some x =>
    match getData h x.vars, getList h x.callbacks with
    | some vd, some items =>
      some ⟨x.own, vd, x.model.map (getData h), items.map (fun c => (getCb h c).map (·.hist))⟩
    | _, _ => none

/-- VARIANT of `update`: `on_update_end` of every callback runs BEFORE `_update` (the entry recorded is a
snapshot of the state BEFORE the update) -/
def updatePre (S : Sem D V R) (h : Heap D) (d : Ref) (v : V) : Option (Heap D) :=
  match callbacksOf h d with
  | none => none
  | some items =>
  match forEach (onUpdateEnd S v) h items with
  | none => none
  | some h1 => updateCore S h1 d v

/-- VARIANT callback method: records like `HistoryConceptDrift.on_update_end`, then REBINDS the scalar
attributes of the detector it points back to (to the entry just recorded) -/
def onUpdateEndMeddling (S : Sem D V R) (v : V) (h : Heap D) (c : Ref) : Option (Heap D) :=
  match getCb h c with
  | none => none
  | some cb =>
  match cb.detector with
  | none => none
  | some det =>
  match getDet h det with
  | none => none
  | some x =>
  match getData h x.vars with
  | none => none
  | some vd =>
    some (write (write h c (.callback { cb with hist := cb.hist ++ [S.snap x.own vd v] }))
      det (.detector { x with own := S.snap x.own vd v }))

/-- VARIANT of `update` with the meddling callback method -/
def updateMeddling (S : Sem D V R) (h : Heap D) (d : Ref) (v : V) : Option (Heap D) :=
  match callbacksOf h d with
  | none => none
  | some items =>
  match updateCore S h d v with
  | none => none
  | some h1 => forEach (onUpdateEndMeddling S v) h1 items

/-- `update(value)` of a detector whose `_update` DRAWS from NumPy's global generator: `g` is the cell of
the generator state (shared by the whole process), `adv` the state transition of one draw, `mix s v`
what `_update` effectively works on when the generator state was `s`.  The draw comes first. -/
def drawUpdate (S : Sem D V R) (adv : D → D) (mix : D → V → V) (g : Ref) (h : Heap D) (d : Ref) (v : V) :
    Option (Heap D) :=
  match getData h g with
  | none => none
  | some s => update S (write h g (.data (adv s))) d (mix s v)

/-- operations of a history in the presence of the global generator -/
inductive GOp (V : Type) where
  /-- an `update` that does not draw -/
  | update (v : V)
  /-- an `update` that draws (KSWIN-like) -/
  | draw (v : V)
  | reset

def applyGen (S : Sem D V R) (adv : D → D) (mix : D → V → V) (g d : Ref) (h : Heap D) : GOp V → Option (Heap D)
  | .update v => update S h d v
  | .draw v => drawUpdate S adv mix g h d v
  | .reset => reset S h d

/-- addressed to the first (`false`) or second (`true`) of two detectors -/
def applyGenTo (S : Sem D V R) (adv : D → D) (mix : D → V → V) (g d1 d2 : Ref) (h : Heap D) (e : Bool × GOp V) :
    Option (Heap D) :=
  applyGen S adv mix g (if e.1 then d2 else d1) h e.2

end Frouros.Heap
