/-
  Model of the histogram / transport distances in
  frouros/detectors/data_drift/batch/distance_based/{base,psi,hellinger_distance,
  bhattacharyya_distance,hi_normalized_complement,js,kl,emd,energy_distance}.py
-/
import FrourosModel.Num
namespace Frouros.Hist
open Frouros

variable {α : Type} [Num α]

def sum (l : List α) : α := l.foldl (· + ·) Num.zero
def minL (l : List α) : α := match l with | [] => Num.zero | x :: xs => xs.foldl (fun a y => if Num.lt y a then y else a) x
def maxL (l : List α) : α := match l with | [] => Num.zero | x :: xs => xs.foldl (fun a y => if Num.gt y a then y else a) x

/-- `np.linspace(lo, hi, num)` : `i*step + lo`, last point exactly `hi` -/
def linspace (lo hi : α) (num : Nat) : List α :=
  if num == 0 then [] else if num == 1 then [lo] else
  let step := (hi - lo) / Num.ofNat (num - 1)
  (List.range num).map (fun i => if i == num - 1 then hi else (Num.ofNat i : α) * step + lo)

/-- numpy `_get_outer_edges`: a degenerate range is widened by ±0.5 -/
def outerEdges (lo hi : α) : α × α :=
  if Num.beq lo hi then (lo - Num.ofDec 5 1, hi + Num.ofDec 5 1) else (lo, hi)

/-- bin edges of `np.histogram(pooled, bins=num_bins)` -/
def edges (pooled : List α) (numBins : Nat) : List α :=
  let (lo, hi) := outerEdges (minL pooled) (maxL pooled)
  linspace lo hi (numBins + 1)

/-- counts of `np.histogram(a, bins=edges)`: bin `i` = `[e_i, e_{i+1})`, last bin closed -/
def counts (es : List α) (a : List α) : List Nat :=
  let nb := es.length - 1
  (List.range nb).map (fun i =>
    let lo := es.getD i Num.zero
    let hi := es.getD (i + 1) Num.zero
    (a.filter (fun x => Num.le lo x && (if i == nb - 1 then Num.le x hi else Num.lt x hi))).length)

/-- `_calculate_bins_values`: proportions of both samples on the pooled-range bins -/
def binsValues (xref x : List α) (numBins : Nat) : List α × List α :=
  let es := edges (xref ++ x) numBins
  ((counts es xref).map (fun c => (Num.ofNat c : α) / Num.ofNat xref.length),
   (counts es x).map (fun c => (Num.ofNat c : α) / Num.ofNat x.length))

/-- PSI with empty bins floored at `floor` (= `sys.float_info.min`) -/
def psiOf (floor : α) (p q : List α) : α :=
  let fl (v : α) : α := if Num.beq v Num.zero then floor else v
  sum (List.zipWith (fun pi qi => let pi := fl pi; let qi := fl qi; (qi - pi) * Num.log (qi / pi)) p q)
def hellingerOf (p q : List α) : α :=
  Num.sqrt (sum (List.zipWith (fun pi qi => Num.npow (Num.sqrt pi - Num.sqrt qi) 2) p q)) / Num.sqrt Num.two
def bhattacharyyaOf (p q : List α) : α := Num.one - sum (List.zipWith (fun pi qi => Num.sqrt (pi * qi)) p q)
def hiOf (p q : List α) : α := Num.one - sum (List.zipWith (fun pi qi => if Num.lt qi pi then qi else pi) p q)

def psi (floor : α) (xref x : List α) (nb : Nat) : α := let (p, q) := binsValues xref x nb; psiOf floor p q
def hellinger (xref x : List α) (nb : Nat) : α := let (p, q) := binsValues xref x nb; hellingerOf p q
def bhattacharyya (xref x : List α) (nb : Nat) : α := let (p, q) := binsValues xref x nb; bhattacharyyaOf p q
/-- histogram intersection: `np.histogram(·, bins=nb, range=(pooled min, pooled max))` (same edges) -/
def hi (xref x : List α) (nb : Nat) : α := let (p, q) := binsValues xref x nb; hiOf p q

/-! ### JS / KL on the `rv_histogram` of auto-binned histograms (edges and counts are inputs) -/
/-- `rv_histogram(h).cdf(x)`: piecewise linear between the edges, 0 below, 1 above -/
def histCdf (es : List α) (cs : List Nat) (x : α) : α :=
  let total : α := Num.ofNat cs.sum
  let rec go (es : List α) (cs : List Nat) (acc : Nat) : α :=
    match es, cs with
    | e0 :: e1 :: rest, c :: cs' =>
      if Num.lt x e0 then (Num.ofNat acc : α) / total
      else if Num.lt x e1 then
        ((Num.ofNat acc : α) + (Num.ofNat c : α) * ((x - e0) / (e1 - e0))) / total
      else go (e1 :: rest) cs' (acc + c)
    | _, _ => (Num.ofNat acc : α) / total
  match es with
  | [] => Num.zero
  | e0 :: _ => if Num.lt x e0 then Num.zero else go es cs 0

/-- `_calculate_probabilities`: cdf differences on `linspace(min, max, num_bins)` -/
def probabilities (es : List α) (cs : List Nat) (lo hi : α) (numBins : Nat) : List α :=
  let pts := linspace lo hi numBins
  List.zipWith (fun a b => histCdf es cs b - histCdf es cs a) pts pts.tail

/-- `scipy.special.rel_entr` for non-negative arguments; `none` = +inf -/
def relEntr (x y : α) : Option α :=
  if Num.beq x Num.zero then some Num.zero
  else if Num.beq y Num.zero then none
  else some (x * Num.log (x / y))

def sumOpt (l : List (Option α)) : Option α :=
  l.foldl (fun acc o => match acc, o with | some a, some b => some (a + b) | _, _ => none) (some Num.zero)

/-- `np.sum(rel_entr(test, ref))` -/
def klOf (ref test : List α) : Option α := sumOpt (List.zipWith relEntr test ref)

/-- `scipy.spatial.distance.jensenshannon(p, q)` (natural log) -/
def jsOf (p q : List α) : Option α :=
  let sp := sum p; let sq := sum q
  let p := p.map (· / sp); let q := q.map (· / sq)
  let m := List.zipWith (fun a b => (a + b) / Num.two) p q
  match sumOpt (List.zipWith relEntr p m), sumOpt (List.zipWith relEntr q m) with
  | some l, some r => some (Num.sqrt ((l + r) / Num.two))
  | _, _ => none

/-! ### EMD / energy distance (scipy `_cdf_distance`) -/
/-- insertion sort by the carrier's `≤` -/
def insertSorted (x : α) : List α → List α
  | [] => [x]
  | y :: ys => if Num.le x y then x :: y :: ys else y :: insertSorted x ys
def sort (l : List α) : List α := l.foldr insertSorted []

def countLe (l : List α) (z : α) : Nat := (l.filter (fun x => Num.le x z)).length

/-- `Σ |U(z_i) − V(z_i)|^p · (z_{i+1} − z_i)` over the sorted pooled sample -/
def cdfDistance (p : Nat) (u v : List α) : α :=
  let all := sort (u ++ v)
  let terms := List.zipWith (fun z znext =>
      let d := Num.abs ((Num.ofNat (countLe u z) : α) / Num.ofNat u.length - Num.ofNat (countLe v z) / Num.ofNat v.length)
      (if p == 1 then d else d * d) * (znext - z)) all all.tail
  sum terms

def emd (u v : List α) : α := cdfDistance 1 u v
def energy (u v : List α) : α := Num.sqrt (Num.two * cdfDistance 2 u v)

end Frouros.Hist
