/-
  Two-sample Kolmogorov–Smirnov: statistic as the Python code computes it (searchsorted on the pooled
  sample), the integer lattice form `h`, and the exact null probability by counting monotone
  lattice paths that stay strictly inside the band (scipy `_compute_prob_outside_square` /
  `_compute_outer_prob_inside_method` compute the same quantity in floating point).
-/
import FrourosModel.Num
namespace Frouros.KS
open Frouros

variable {α : Type} [Num α]

/-- `np.searchsorted(sorted l, z, side="right")` = number of elements `≤ z` -/
def countLe (l : List α) (z : α) : Nat := (l.filter (fun x => Num.le x z)).length

/-- signed lattice deviations `c_ref(z)·(lcm/n) − c_test(z)·(lcm/m)` over the pooled sample -/
def devs (ref test : List α) : List Int :=
  let n := ref.length
  let m := test.length
  let g := Nat.gcd n m
  (ref ++ test).map (fun z => (countLe ref z * (m / g) : Int) - (countLe test z * (n / g) : Int))

/-- `h = round(D · lcm)` on integers: the largest absolute lattice deviation -/
def hTwoSided (ref test : List α) : Nat := (devs ref test).foldl (fun acc d => max acc d.natAbs) 0

/-- `D⁺ = max(F_ref − F_test)`, `D⁻ = max(F_test − F_ref)` in lattice units -/
def hPlus (ref test : List α) : Nat := (devs ref test).foldl (fun acc d => max acc d.toNat) 0
def hMinus (ref test : List α) : Nat := (devs ref test).foldl (fun acc d => max acc (-d).toNat) 0

/-- the statistic exactly as frouros' own `_calculate_statistic` (IncrementalKSTest) evaluates it in the carrier: the raw CDF difference.
`scipy.stats.ks_2samp` in its exact mode renormalises it to `h / lcm` (one ulp away at most): see `Kuiper.ks2sampStatistic`; the KS checks compare
the statistic with a tolerance, the Kuiper p-value (discontinuous on that lattice) uses the renormalised form -/
def statistic (ref test : List α) : α :=
  let n : α := Num.ofNat ref.length
  let m : α := Num.ofNat test.length
  let diffs := (ref ++ test).map (fun z => (Num.ofNat (countLe ref z) : α) / n - Num.ofNat (countLe test z) / m)
  match diffs with
  | [] => Num.zero
  | d0 :: ds =>
    let mn := ds.foldl (fun a d => if Num.lt d a then d else a) d0
    let mx := ds.foldl (fun a d => if Num.gt d a then d else a) d0
    -- np.clip(-min, 0, 1)
    let minS := let x := -mn; if Num.lt x Num.zero then Num.zero else if Num.gt x Num.one then Num.one else x
    if Num.gt minS mx then minS else mx

/-- strictly inside the two-sided band: `|i·(lcm/n) − j·(lcm/m)| < h` -/
def inside (n m h : Nat) (i j : Nat) : Bool :=
  let g := Nat.gcd n m
  ((i * (m / g) : Int) - (j * (n / g) : Int)).natAbs < h

/-- number of monotone lattice paths (0,0) → (i,j) all of whose points satisfy `ok` (specification) -/
def pathsInside (ok : Nat → Nat → Bool) : Nat → Nat → Nat
  | 0, 0 => if ok 0 0 then 1 else 0
  | i + 1, 0 => if ok (i + 1) 0 then pathsInside ok i 0 else 0
  | 0, j + 1 => if ok 0 (j + 1) then pathsInside ok 0 j else 0
  | i + 1, j + 1 => if ok (i + 1) (j + 1) then pathsInside ok i (j + 1) + pathsInside ok (i + 1) j else 0

/-- one DP row from the previous one (`prev[j]` = paths to (i-1, j)); `none` for row 0 -/
def dpRow (ok : Nat → Nat → Bool) (i m : Nat) (prev : Option (List Nat)) : List Nat :=
  let step (acc : List Nat × Nat) (j : Nat) : List Nat × Nat :=
    -- acc.2 = value at (i, j-1) (0 for j = 0)
    let up := match prev with
      | none => if j == 0 then 1 else 0
      | some p => p.getD j 0
    let left := if j == 0 then 0 else acc.2
    let v := if ok i j then up + left else 0
    (v :: acc.1, v)
  ((List.range (m + 1)).foldl step ([], 0)).1.reverse

/-- row-by-row dynamic programme: paths to `(n, m)` -/
def dpCount (ok : Nat → Nat → Bool) (n m : Nat) : Nat :=
  let row0 := dpRow ok 0 m none
  let last := (List.range n).foldl (fun prev i => dpRow ok (i + 1) m (some prev)) row0
  last.getD m 0

/-- exact two-sided null probability `P(D ≥ h/lcm)` as a fraction `(num, den)` -/
def pExactFrac (n m h : Nat) : Nat × Nat :=
  let total := Nat.choose' (n + m) n
  (total - dpCount (inside n m h) n m, total)
where
  Nat.choose' (a b : Nat) : Nat := Id.run do
    let mut r := 1
    for k in [0:b] do
      r := r * (a - k) / (k + 1)
    return r

/-- `num/den` (≤ 1) as the nearest double (up to one ulp) -/
def ratioToFloat (num den : Nat) : Float :=
  if den == 0 then 0.0 else
  let k := 1000
  Float.scaleB (Float.ofNat ((num <<< k) / den)) (-(k : Int))

/-- two-sided exact p-value at `Float` (`1.0` when `h = 0`) -/
def pExactFloat (n m h : Nat) : Float :=
  if h == 0 then 1.0 else
  let (a, b) := pExactFrac n m h
  ratioToFloat a b

/-- the KS p-value function used for KSWIN / KSTest / IncrementalKSTest in the driver -/
def pTwoSided (ref test : List Float) : Float :=
  pExactFloat ref.length test.length (hTwoSided ref test)

end Frouros.KS
