/-
  Small models: dataset download (frouros/datasets/base.py), synthetic generators
  (frouros/datasets/synthetic.py), history / reset callbacks (frouros/callbacks/…),
  save (frouros/utils/persistence.py decision logic).
-/
import FrourosModel.Stats
namespace Frouros

/-! ### Download: mirrors tried in order -/
namespace Download
inductive Outcome where
  | connErr | headNotOk | getStatus | timeout
  | ok (bytes : List Nat)
  deriving DecidableEq, Repr

structure Result where
  /-- content of the target file afterwards (it starts empty) -/
  file : List Nat
  contacted : Nat
  error : Bool
  deriving DecidableEq, Repr

/-- `download()`: first successful mirror wins, the loop breaks; DownloadError if none -/
def download : List Outcome → Result
  | [] => ⟨[], 0, true⟩
  | .ok b :: _ => ⟨b, 1, false⟩
  | _ :: rest => let r := download rest; { r with contacted := r.contacted + 1 }

/-! `BaseDatasetDownload` as a state machine: `path` = `file_path is not None`, `file` = content of
the file it names (`none`: no such file).  `download` opens the target with mode "wb" (after the fix;
"ab" appended to whatever was there), only after a mirror answered. -/
structure DState where
  path : Bool
  file : Option (List Nat)
  deriving DecidableEq, Repr

inductive DOut where
  | done | downloadError | typeError | fileNotFound | readFileError
  | data (bytes : List Nat)
  deriving DecidableEq, Repr

inductive DOp where
  | download (outs : List Outcome)
  /-- `load()`; `readOk = false`: `read_file` raises IndexError -/
  | load (readOk : Bool)
  deriving DecidableEq, Repr

def dstep (s : DState) : DOp → DState × DOut
  | .download outs =>
    let r := download outs
    if r.error then (s, .downloadError)
    else if !s.path then (s, .typeError)          -- `open(file=None)` at the first reachable mirror
    else ({ s with file := some r.file }, .done)
  | .load readOk =>
    if !s.path then (s, .fileNotFound)
    else match s.file with
      | none => (s, .fileNotFound)                -- `read_file` cannot open the file
      | some b => if readOk then (⟨false, none⟩, .data b) else (s, .readFileError)

def drun (s : DState) : List DOp → DState × List DOut
  | [] => (s, [])
  | op :: ops => let (s1, o) := dstep s op; let (s2, os) := drun s1 ops; (s2, o :: os)
end Download

/-! ### SEA / Dummy generators -/
namespace Synthetic
variable {α : Type} [Num α]
/-- block thresholds 8, 9, 7, 9.5 -/
def threshold (block : Nat) : Option α :=
  match block with
  | 1 => some (Num.ofNat 8) | 2 => some (Num.ofNat 9) | 3 => some (Num.ofNat 7) | 4 => some (Num.ofDec 95 1)
  | _ => none
/-- `_generate_sample`: `r` = the `np.random.random()` draw, `coin` = the `randint(2)` draw -/
def seaLabel (thr noise x0 x1 r : α) (coin : Nat) : Nat :=
  if Num.lt r noise then coin else (if Num.le (x0 + x1) thr then 1 else 0)
def dummyLabel (cls : Nat) (x0 x1 : α) : Nat := if Num.lt (x0 + x1) (Num.ofNat 10) then cls else 1 - cls
/-- argument validation of `SEA.generate_dataset` in the order of the checks -/
def seaCheck (block : Nat) (numSamples : Int) (noise : α) : Option Err :=
  if (threshold (α := α) block).isNone then some .invalidBlock
  else if numSamples < 1 then some .value
  else if !(Num.le Num.zero noise && Num.le noise Num.one) then some .value
  else none
def dummyCheck (cls : Int) (numSamples : Int) : Option Err :=
  if !(cls == 0 || cls == 1) then some .value else if numSamples < 1 then some .value else none
end Synthetic

/-! ### HistoryConceptDrift: one list per tracked variable -/
namespace History
structure State (E : Type) where
  names : List String
  hist : List (String × List E)

def init {E : Type} : State E := ⟨[], [("value", []), ("num_instances", []), ("drift", [])]⟩
/-- `add_additional_vars` (after the fix: each name once) -/
def addVars {E : Type} (s : State E) (vars : List String) : State E :=
  let fresh := vars.foldl (fun acc v => if acc.contains v || s.names.contains v then acc else acc ++ [v]) []
  let names := s.names ++ fresh
  let base := s.hist.filter (fun p => !names.contains p.1)
  ⟨names, base ++ names.map (fun n => (n, []))⟩
/-- `on_update_end`: `snap name` is the value of the tracked variable right after the update -/
def onUpdateEnd {E : Type} (s : State E) (snap : String → E) : State E :=
  { s with hist := s.hist.map (fun p => (p.1, p.2 ++ [snap p.1])) }
def reset {E : Type} (s : State E) : State E := { s with hist := s.hist.map (fun p => (p.1, [])) }
end History

/-! ### ResetStatisticalTest -/
namespace ResetCb
variable {α : Type} [Num α]
/-- `on_compare_end`: reset iff `p ≤ alpha`; the result handed back is the one computed before -/
def onCompareEnd {S R : Type} (alpha : α) (pOf : R → α) (reset : S → S) (s : S) (r : R) : R × S :=
  if Num.le (pOf r) alpha then (r, reset s) else (r, s)
end ResetCb

/-! ### save(): decision order -/
namespace Persist
inductive SaveOutcome where | typeError | valueError | written
  deriving DecidableEq, Repr
/-- type test before protocol test before opening the file -/
def save (isDetectorOrCallback : Bool) (protocol : Int) (highest : Nat) : SaveOutcome :=
  if !isDetectorOrCallback then .typeError
  else if !(0 ≤ protocol && protocol ≤ highest) then .valueError
  else .written
end Persist

end Frouros
