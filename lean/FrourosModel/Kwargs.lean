/-
  Keyword-argument plumbing of the distance-based batch detectors
  (frouros/detectors/data_drift/batch/distance_based/{base,psi,hellinger_distance,bhattacharyya_distance,
  hi_normalized_complement,js,kl,emd,energy_distance,mmd}.py) and of the permutation-test callback
  (frouros/callbacks/batch/permutation_test.py::on_compare_end → `_calculate_p_value` →
  frouros/utils/stats.py::permutation → `partial(statistic, **statistical_args)`).

  A Python `dict` with string keys is an association list with unique keys; `put` is `d[k] = v`, a dict display
  `{k1: v1, **d, k2: v2}` inserts its items from left to right (`lit`): the LATER item wins, the position of a key is
  that of its first insertion.  Lookups (`get?`) are all a callee can observe of keyword arguments, so two
  dictionaries are interchangeable when they agree on every key (`C13.DictEq`).
-/
import FrourosModel.Perm
import FrourosModel.Tests2
import FrourosModel.Hist
namespace Frouros.Kwargs
open Frouros

/-- values that occur in the keyword dictionaries -/
inductive Val where
  | none                       -- `None`
  | int (i : Int)
  | float (repr : String)      -- a float, identified by its repr / bit pattern
  | str (s : String)
  | fn (name : String)         -- a callable (the MMD kernel), identified by name
  deriving DecidableEq, Repr, Inhabited

abbrev Dict := List (String × Val)

/-- `d[k] = v` -/
def put (d : Dict) (k : String) (v : Val) : Dict :=
  match d with
  | [] => [(k, v)]
  | (k', v') :: rest => if k' == k then (k', v) :: rest else (k', v') :: put rest k v

/-- `{**d, **e}` -/
def merge (d e : Dict) : Dict := e.foldl (fun acc kv => put acc kv.1 kv.2) d

/-- the dict display `{k1: v1, k2: v2, …}` (also `{**a, k: v, **b}` = `lit (a ++ [(k, v)] ++ b)`) -/
def lit (items : List (String × Val)) : Dict := merge [] items

/-- `d.get(k)` -/
def get? (d : Dict) (k : String) : Option Val := (d.find? (fun kv => kv.1 == k)).map (·.2)

def keys (d : Dict) : List String := d.map (·.1)

/-! ### the nine detectors -/
inductive Kind where
  | psi | hellinger | bhattacharyya | hiNormalizedComplement     -- BaseDistanceBasedBins
  | js | kl                                                       -- BaseDistanceBasedProbability
  | emd | energy | mmd                                            -- BaseDistanceBased
  deriving DecidableEq, Repr

def Kind.binned : Kind → Bool
  | .psi | .hellinger | .bhattacharyya | .hiNormalizedComplement => true
  | _ => false

/-- constructor arguments (those the kind does not have are ignored) -/
structure Cfg where
  kind : Kind
  /-- `num_bins` (PSI, Hellinger, Bhattacharyya, HINormalizedComplement, JS, KL); the setter requires `≥ 1` -/
  numBins : Nat := 10
  /-- `kernel` (MMD) -/
  kernel : String := "rbf_kernel"
  /-- `chunk_size` (MMD) -/
  chunkSize : Option Nat := none
  /-- `**kwargs` of the constructor (JS, KL, EMD, EnergyDistance).  Python never binds an explicit parameter name
  (`num_bins`, `callbacks`) into `**kwargs`. -/
  extra : Dict := []

/-- the object after `__init__` -/
structure Detector where
  kind : Kind
  /-- `self.statistical_kwargs` -/
  statKwargs : Dict
  /-- `self.num_bins` (the base class first stores its own argument, the subclass then stores the user's) -/
  numBins : Nat
  /-- `self.sqrt_div` (Hellinger) -/
  sqrtDiv : Val
  /-- `self.kernel`, `self.chunk_size` (MMD) -/
  kernel : Val
  chunkSize : Val
  /-- `self.kwargs` -/
  kwargs : Dict
  deriving Repr

def defaultNumBins : Nat := 10
def sqrt2 : Val := .float "np.sqrt(2)"
def optNat (o : Option Nat) : Val := match o with | some n => .int n | none => .none

/-- `BaseDistanceBasedBins.__init__(statistical_kwargs=…, num_bins=numBins)`: the dictionary handed to
`BaseDistanceBased.__init__`.
* repaired tree (base.py:142): `{"num_bins": num_bins, **statistical_kwargs}`
* before the repair:           `{**statistical_kwargs, "num_bins": num_bins}` -/
def binsInit (repaired : Bool) (statisticalKwargs : Dict) (numBins : Nat := defaultNumBins) : Dict :=
  if repaired then lit ([("num_bins", .int numBins)] ++ statisticalKwargs)
  else lit (statisticalKwargs ++ [("num_bins", .int numBins)])

/-- what each subclass passes as `statistical_kwargs=` to `super().__init__` -/
def subclassKwargs (c : Cfg) : Dict :=
  match c.kind with
  | .psi | .bhattacharyya | .hiNormalizedComplement => lit [("num_bins", .int c.numBins)]
  | .hellinger => lit [("num_bins", .int c.numBins), ("sqrt_div", sqrt2)]
  | .js => lit ([("num_bins", .int c.numBins)] ++ c.extra)              -- {"num_bins": num_bins, **kwargs}
  | .kl => lit (c.extra ++ [("num_bins", .int c.numBins)])              -- {**kwargs, "num_bins": num_bins}
  | .emd | .energy => lit c.extra                                       -- kwargs
  | .mmd => lit [("kernel", .fn c.kernel), ("chunk_size", optNat c.chunkSize)]

/-- the constructors.  None of the four binned subclasses forwards `num_bins=` to `BaseDistanceBasedBins.__init__`,
so the base class sees its default `10`; JS/KL pass `statistical_kwargs` through `BaseDistanceBasedProbability`
unchanged; EMD/EnergyDistance/MMD call `BaseDistanceBased.__init__` directly. -/
def construct (repaired : Bool) (c : Cfg) : Detector :=
  { kind := c.kind
    statKwargs := if c.kind.binned then binsInit repaired (subclassKwargs c) else subclassKwargs c
    numBins := c.numBins
    sqrtDiv := sqrt2
    kernel := .fn c.kernel
    chunkSize := optNat c.chunkSize
    kwargs := lit c.extra }

/-- attribute assignment `detector.num_bins = v` after construction (the setter only validates and stores) -/
def Detector.setNumBins (d : Detector) (v : Nat) : Detector := { d with numBins := v }

/-- the keyword arguments with which `_distance_measure` (reached from `compare`) calls the static distance function:
explicit keywords followed by a `**` dictionary (a duplicate is a `TypeError`, `Tests2.pyCall`).
`expectedKxx` is `self._expected_k_xx` (set by `fit`), `callKwargs` the `**kwargs` of `compare`, which only MMD forwards. -/
def compareCall (d : Detector) (expectedKxx : Val := .none) (callKwargs : Dict := []) : Tests2.CallResult Val :=
  match d.kind with
  | .psi | .bhattacharyya | .hiNormalizedComplement => Tests2.pyCall [("num_bins", .int d.numBins)] []
  | .hellinger => Tests2.pyCall [("num_bins", .int d.numBins), ("sqrt_div", d.sqrtDiv)] []
  | .js | .kl => Tests2.pyCall [("num_bins", .int d.numBins)] d.kwargs
  | .emd | .energy => Tests2.pyCall [] d.kwargs
  | .mmd => Tests2.pyCall [("kernel", d.kernel), ("chunk_size", d.chunkSize), ("expected_k_xx", expectedKxx)] callKwargs

/-- `on_compare_end`: `statistic_args=self.detector.statistical_kwargs`, forwarded unchanged through
`_calculate_p_value(statistic_args=…)` and `permutation(statistical_args=…)` into `partial(statistic, **statistical_args)` -/
def callbackKwargs (d : Detector) : Dict := d.statKwargs

/-- the null statistics of the callback: `statistic(x, y, **statistical_args)` on every re-split -/
def callbackNull {α X : Type} (stat : Dict → List X → List X → α) (d : Detector) (n m : Nat) (perms : List (List X)) : List α :=
  Perm.nullStats stat (callbackKwargs d) n m perms

/-! ### binding the keyword arguments to the static distance functions of the four binned detectors -/
/-- `_psi / _hellinger / _bhattacharyya / _hi_normalized_complement (X, Y, *, num_bins[, sqrt_div])` called with the
keywords `kw`: `none` is a `TypeError` (missing or unexpected keyword).  `tiny` is `sys.float_info.min` (PSI).
Hellinger's `sqrt_div` is always `np.sqrt(2)`, which is what `Hist.hellinger` divides by. -/
def binnedStat {α : Type} [Num α] (tiny : α) (k : Kind) (kw : Dict) (x y : List α) : Option α :=
  match get? kw "num_bins" with
  | some (.int (.ofNat nb)) =>
    match k with
    | .psi => if (keys kw).all (· == "num_bins") then some (Hist.psi tiny x y nb) else .none
    | .bhattacharyya => if (keys kw).all (· == "num_bins") then some (Hist.bhattacharyya x y nb) else .none
    | .hiNormalizedComplement => if (keys kw).all (· == "num_bins") then some (Hist.hi x y nb) else .none
    | .hellinger =>
      if (keys kw).all (fun s => s == "num_bins" || s == "sqrt_div") && get? kw "sqrt_div" == some sqrt2
      then some (Hist.hellinger x y nb) else .none
    | _ => .none
  | _ => .none

end Frouros.Kwargs
