/-
  Model of frouros/detectors/data_drift/batch/distance_based/mmd.py (chunked unbiased MMD²) and
  frouros/detectors/data_drift/streaming/distance_based/mmd.py (window = circular queue).
  `X` is the sample-point type, `k : X → X → α` the kernel.
-/
import FrourosModel.Stats
namespace Frouros.MMD
open Frouros

variable {α : Type} [Num α] {X : Type}

def sum (l : List α) : α := l.foldl (· + ·) Num.zero

/-- `_get_chunks`: `data[i : i + cs] for i in range(0, len(data), cs)`; fuel = `len(data)` -/
def chunksAux (cs : Nat) : Nat → List X → List (List X)
  | 0, _ => []
  | fuel + 1, l => if l.isEmpty then [] else l.take cs :: chunksAux cs fuel (l.drop cs)
def chunks (cs : Nat) (l : List X) : List (List X) := chunksAux cs l.length l

/-- `kernel(A, B).sum()` -/
def kernelSum (k : X → X → α) (A B : List X) : α := sum (A.map (fun a => sum (B.map (fun b => k a b))))

/-- `_compute_kernel` over `itertools.product(as, bs)` -/
def computeKernel (k : X → X → α) (as bs : List (List X)) : α :=
  sum (as.map (fun A => sum (bs.map (fun B => kernelSum k A B))))

/-- `(Σ k(x_i,x_j) − n) / (n (n−1))` (diagonal removed assuming `k x x = 1`) -/
def expectedK (k : X → X → α) (cs : Nat) (xs : List X) : α :=
  let n := xs.length
  let c := chunks cs xs
  (computeKernel k c c - Num.ofNat n) / Num.ofNat (n * (n - 1))

/-- `MMD._mmd`; `pre` = the reference term precomputed at fit time (if any) -/
def mmd (k : X → X → α) (chunkSize : Option Nat) (xs ys : List X) (pre : Option α) : α :=
  let n := xs.length
  let m := ys.length
  let csx := chunkSize.getD n
  let csy := chunkSize.getD m
  let exx := match pre with | some e => e | none => expectedK k csx xs
  let cy := chunks csy ys
  let kyy := computeKernel k cy cy - Num.ofNat m
  let kxy := computeKernel k (chunks csx xs) cy
  exx + kyy / Num.ofNat (m * (m - 1)) - Num.two * kxy / Num.ofNat (n * m)

/-- textbook unbiased estimator (specification) -/
def offDiag (k : X → X → α) (xs : List X) : α :=
  sum ((List.range xs.length).map (fun i => sum ((List.range xs.length).map (fun j =>
    if i = j then Num.zero else match xs[i]?, xs[j]? with | some a, some b => k a b | _, _ => Num.zero))))

/-- squared-euclidean RBF kernel on vectors (frouros/utils/kernels.py) -/
def rbf (sigma : α) (a b : List α) : α :=
  let d := sum (List.zipWith (fun x y => (x - y) * (x - y)) a b)
  Num.exp ((-d) / (Num.two * Num.npow sigma 2))

/-! ### streaming MMD -/
structure Stream (α X : Type) where
  n : Nat
  window : Nat
  chunkSize : Option Nat
  ref : Option (List X)
  pre : Option α
  q : CQ X

def Stream.init (w : Nat) (cs : Option Nat) : Stream α X := ⟨0, w, cs, none, none, CQ.init w⟩
def Stream.fit (k : X → X → α) (s : Stream α X) (xs : List X) : Stream α X :=
  { s with ref := some xs, pre := some (expectedK k (s.chunkSize.getD xs.length) xs) }
/-- `update` on an unfitted detector raises MissingFitError BEFORE anything is counted or stored
(streaming/base.py: `_common_checks()` precedes `num_instances += 1`) -/
def Stream.updateErr (s : Stream α X) : Option Err := if s.ref.isNone then some .missingFit else none
/-- `update`: unfitted → nothing changes (see `updateErr`); otherwise `none` until the window is
full, then the batch value on the raw queue buffer -/
def Stream.update (k : X → X → α) (s : Stream α X) (v : X) : Option α × Stream α X :=
  match s.ref with
  | none => (none, s)
  | some r =>
    match s.q.enqueue v with
    | .error _ => (none, s)
    | .ok (_, q) =>
      let s := { s with n := s.n + 1, q := q }
      if s.n < s.window then (none, s)
      else (some (mmd k s.chunkSize r (q.raw.filterMap id) s.pre), s)
def Stream.reset (s : Stream α X) : Stream α X := { s with n := 0, ref := none, q := s.q.clear }

end Frouros.MMD
