/-
  SEA / Dummy dataset generators over a draw tape (frouros/datasets/synthetic.py, datasets/base.py:185-197).

  The generators draw from NumPy's GLOBAL legacy generator (`np.random.uniform / random / randint`;
  `BaseDatasetGenerator.__init__` calls `np.random.seed(seed)`).  The generator is modelled by the TRACE
  of what its calls return, in the order of the calls:

  * `floats` : the values returned by the float draws — `uniform(0, 10, size=(k,))` contributes `k`
               values (already scaled to [0,10)), `random()` contributes one value (in [0,1));
  * `coins`  : the values returned by `randint(2)`.

  A draw pops the head of the corresponding list.  "Seeding with the same seed" = "starting from the same
  tape" (NumPy's generator is deterministic: same seed and same sequence of calls ⇒ same returns; the
  sequence of calls is itself a function of the returns, so by induction the whole trace is a function of
  the seed).  Python never runs out of random numbers; a finite tape can: that is the outer `none`
  ("starved") of the functions below — a model artefact, excluded in the theorems by a length hypothesis.

  `generate_dataset` is an ordinary function that validates EAGERLY and returns a generator expression:
  nothing is drawn until the expression is iterated.  `SeaIter` / `DummyIter` are that lazy object
  (captured arguments + how many items are left), `seaNext` / `dummyNext` is `next(dataset)`.

  Imports only model files.
-/
import FrourosModel.Misc
namespace Frouros.Synth2
open Frouros Frouros.Synthetic
variable {α : Type} [Num α]

/-- the future outputs of the global generator -/
structure Tape (α : Type) where
  floats : List α
  coins : List Nat

/-- `(X, y)` of SEA: three features, one label -/
structure SeaSample (α : Type) where
  x0 : α
  x1 : α
  x2 : α
  y : Nat

/-- `(X, y)` of Dummy: two features, one label -/
structure DummySample (α : Type) where
  x0 : α
  x1 : α
  y : Int

/-! ### SEA -/

/-- `SEA._generate_sample(threshold, noise)` (synthetic.py:48-54), in the order of the draws:
`X = uniform(0, 10, size=(3,))` (three floats), then `random()` (one float); `randint(2)` is drawn ONLY
in the branch `random() < noise`; otherwise `y = 1 if X[0] + X[1] <= threshold else 0`. -/
def seaSample (thr noise : α) (t : Tape α) : Option (SeaSample α × Tape α) :=
  match t.floats with
  | x0 :: x1 :: x2 :: r :: fs =>
    if Num.lt r noise then
      match t.coins with
      | c :: cs => some (⟨x0, x1, x2, c⟩, ⟨fs, cs⟩)
      | [] => none
    else
      some (⟨x0, x1, x2, if Num.le (x0 + x1) thr then 1 else 0⟩, ⟨fs, t.coins⟩)
  | _ => none

/-- `list(self._generate_sample(threshold, noise) for _ in range(n))` -/
def seaGen (thr noise : α) : Nat → Tape α → Option (List (SeaSample α) × Tape α)
  | 0, t => some ([], t)
  | n + 1, t =>
    match seaSample thr noise t with
    | none => none
    | some (s, t1) =>
      match seaGen thr noise n t1 with
      | none => none
      | some (ss, t2) => some (s :: ss, t2)

/-- the generator expression returned by `generate_dataset`: captured `threshold`, `noise`, and the
number of items `range(num_samples)` still has to deliver -/
structure SeaIter (α : Type) where
  thr : α
  noise : α
  remaining : Nat

/-- `SEA.generate_dataset(block, noise, num_samples)` (synthetic.py:70-82): the three checks in the
order of the code, then the (not yet started) generator expression.  No tape argument: nothing is drawn. -/
def seaGenerate (block : Nat) (noise : α) (numSamples : Int) : Except Err (SeaIter α) :=
  match threshold (α := α) block with
  | none => .error .invalidBlock
  | some thr =>
    if numSamples < 1 then .error .value
    else if !(Num.le Num.zero noise && Num.le noise Num.one) then .error .value
    else .ok ⟨thr, noise, numSamples.toNat⟩

/-- `next(dataset)`: inner `none` = `StopIteration` (nothing is drawn), outer `none` = starved tape -/
def seaNext (it : SeaIter α) (t : Tape α) : Option (Option (SeaSample α) × SeaIter α × Tape α) :=
  match it.remaining with
  | 0 => some (none, it, t)
  | k + 1 =>
    match seaSample it.thr it.noise t with
    | none => none
    | some (s, t1) => some (some s, { it with remaining := k }, t1)

/-- `list(dataset)`: `next` until `StopIteration` (`fuel` bounds the loop; `it.remaining` is enough) -/
def seaDrain : Nat → SeaIter α → Tape α → Option (List (SeaSample α) × SeaIter α × Tape α)
  | 0, it, t => some ([], it, t)
  | fuel + 1, it, t =>
    match seaNext it t with
    | none => none
    | some (none, it1, t1) => some ([], it1, t1)
    | some (some s, it1, t1) =>
      match seaDrain fuel it1 t1 with
      | none => none
      | some (ss, it2, t2) => some (s :: ss, it2, t2)

/-- `list(SEA(...).generate_dataset(block, noise, num_samples))` from the generator state `t` -/
def seaDataset (block : Nat) (noise : α) (numSamples : Int) (t : Tape α) :
    Except Err (Option (List (SeaSample α) × Tape α)) :=
  match seaGenerate block noise numSamples with
  | .error e => .error e
  | .ok it => .ok (seaGen it.thr it.noise it.remaining t)

/-- any schedule of `next` calls on live SEA iterators sharing the global generator: the `j`-th call is
made on an iterator that captured `(thr, noise) = ps[j]` -/
def seaPulls : List (α × α) → Tape α → Option (List (SeaSample α) × Tape α)
  | [], t => some ([], t)
  | p :: ps, t =>
    match seaSample p.1 p.2 t with
    | none => none
    | some (s, t1) =>
      match seaPulls ps t1 with
      | none => none
      | some (ss, t2) => some (s :: ss, t2)

/-! ### Dummy -/

/-- `Dummy._generate_sample(class_)` (synthetic.py:89-92): `X = uniform(0, 10, size=(2,))`,
`y = class_ if X[0] + X[1] < 10.0 else 1 - class_`.  (`cls`, `y : Int`: `1 - class_` is the integer subtraction, not a truncated one.) -/
def dummySample (cls : Int) (t : Tape α) : Option (DummySample α × Tape α) :=
  match t.floats with
  | x0 :: x1 :: fs =>
    some (⟨x0, x1, if Num.lt (x0 + x1) (Num.ofNat 10) then cls else 1 - cls⟩, ⟨fs, t.coins⟩)
  | _ => none

def dummyGen (cls : Int) : Nat → Tape α → Option (List (DummySample α) × Tape α)
  | 0, t => some ([], t)
  | n + 1, t =>
    match dummySample cls t with
    | none => none
    | some (s, t1) =>
      match dummyGen cls n t1 with
      | none => none
      | some (ss, t2) => some (s :: ss, t2)

structure DummyIter where
  cls : Int
  remaining : Nat

/-- `Dummy.generate_dataset(class_, num_samples)` (synthetic.py:106-111) -/
def dummyGenerate (cls : Int) (numSamples : Int) : Except Err DummyIter :=
  if !(cls == 1 || cls == 0) then .error .value
  else if numSamples < 1 then .error .value
  else .ok ⟨cls, numSamples.toNat⟩

def dummyNext (it : DummyIter) (t : Tape α) : Option (Option (DummySample α) × DummyIter × Tape α) :=
  match it.remaining with
  | 0 => some (none, it, t)
  | k + 1 =>
    match dummySample it.cls t with
    | none => none
    | some (s, t1) => some (some s, { it with remaining := k }, t1)

def dummyDataset (cls : Int) (numSamples : Int) (t : Tape α) :
    Except Err (Option (List (DummySample α) × Tape α)) :=
  match dummyGenerate cls numSamples with
  | .error e => .error e
  | .ok it => .ok (dummyGen it.cls it.remaining t)

/-- any schedule of `next` calls on live Dummy iterators: the `j`-th call is for class `cs[j]` -/
def dummyPulls : List Int → Tape α → Option (List (DummySample α) × Tape α)
  | [], t => some ([], t)
  | c :: cs, t =>
    match dummySample c t with
    | none => none
    | some (s, t1) =>
      match dummyPulls cs t1 with
      | none => none
      | some (ss, t2) => some (s :: ss, t2)

end Frouros.Synth2
