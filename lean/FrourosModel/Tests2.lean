/-
  The repo-owned parts of the two-sample test detectors (frouros/detectors/data_drift/batch/statistical_test/*):
  keyword forwarding glue, the chi-square contingency table and statistic (as scipy `chi2_contingency` computes
  it from the table), the Mann-Whitney U and Welch t statistics, Kuiper's V.  P-value routines of scipy are opaque.
-/
import FrourosModel.Num
import FrourosModel.KS
namespace Frouros.Tests2
open Frouros
variable {α : Type} [Num α]

def sum (l : List α) : α := l.foldl (· + ·) Num.zero

/-! ### keyword forwarding: explicit keywords + `**kwargs` (duplicate keyword ⇒ TypeError) -/
inductive CallResult (V : Type) where
  | typeError
  | call (kws : List (String × V))
  deriving Repr

/-- Python call `f(k1=v1, …, **kwargs)`: a keyword present both explicitly and in `kwargs` is a `TypeError` -/
def pyCall {V : Type} (explicit kwargs : List (String × V)) : CallResult V :=
  if explicit.any (fun e => kwargs.any (fun k => k.1 == e.1)) then .typeError else .call (explicit ++ kwargs)

/-- `kwargs.pop(key, default)`: value used for the explicit keyword and the remaining kwargs -/
def pop {V : Type} (kwargs : List (String × V)) (key : String) (dflt : V) : V × List (String × V) :=
  match kwargs.find? (·.1 == key) with
  | some (_, v) => (v, kwargs.filter (·.1 != key))
  | none => (dflt, kwargs)
/-- `kwargs.get(key, default)`: the kwargs are left as they are -/
def get {V : Type} (kwargs : List (String × V)) (key : String) (dflt : V) : V :=
  match kwargs.find? (·.1 == key) with | some (_, v) => v | none => dflt

/-- MannWhitneyUTest / WelchTTest after the repair: `alternative=kwargs.pop("alternative", dflt), **kwargs` -/
def forwardPop {V : Type} (kwargs : List (String × V)) (dflt : V) : CallResult V :=
  let (a, rest) := pop kwargs "alternative" dflt
  pyCall [("alternative", a)] rest
/-- the pre-repair wiring `alternative=kwargs.get("alternative", dflt), **kwargs` -/
def forwardGet {V : Type} (kwargs : List (String × V)) (dflt : V) : CallResult V :=
  pyCall [("alternative", get kwargs "alternative" dflt)] kwargs

/-! ### chi-square -/
/-- distinct categories in order of first appearance -/
def categories {κ : Type} [DecidableEq κ] (l : List κ) : List κ := l.eraseDups
/-- `_calculate_frequencies`: per category `(count in test, count in reference)` -/
def freqTable {κ : Type} [DecidableEq κ] (ref test : List κ) : List (Nat × Nat) :=
  (categories (ref ++ test)).map (fun c => (test.count c, ref.count c))

/-- Pearson statistic of the 2×k table as scipy computes it (`correction` = Yates, applied when k = 2) -/
def chi2Stat (correction : Bool) (table : List (Nat × Nat)) : α :=
  let r1 : Nat := (table.map (·.1)).sum
  let r2 : Nat := (table.map (·.2)).sum
  let tot := r1 + r2
  let yates := correction && table.length == 2
  let cell (o : Nat) (rowSum colSum : Nat) : α :=
    let e : α := (Num.ofNat rowSum : α) * Num.ofNat colSum / Num.ofNat tot
    let o' : α := Num.ofNat o
    let diff := e - o'
    let o'' := if yates then
        let mag := if Num.lt (Num.abs diff) (Num.ofDec 5 1) then Num.abs diff else Num.ofDec 5 1
        if Num.lt Num.zero diff then o' + mag else if Num.lt diff Num.zero then o' - mag else o'
      else o'
    (o'' - e) * (o'' - e) / e
  sum (table.map (fun (a, b) => cell a r1 (a + b) + cell b r2 (a + b)))

/-! ### Mann-Whitney U (for the first sample), Welch t -/
/-- `2·U₁ = Σ_{x∈ref, y∈test} (2·[x > y] + [x = y])` (kept doubled to stay in ℕ) -/
def mwuTwice (ref test : List α) : Nat :=
  (ref.map (fun x => (test.map (fun y => if Num.gt x y then 2 else if Num.beq x y then 1 else 0)).sum)).sum

def mean (l : List α) : α := sum l / Num.ofNat l.length
/-- unbiased sample variance -/
def var1 (l : List α) : α := let m := mean l; sum (l.map (fun x => (x - m) * (x - m))) / Num.ofNat (l.length - 1)
/-- Welch statistic `(mean a − mean b)/√(va/na + vb/nb)` -/
def welchT (a b : List α) : α :=
  (mean a - mean b) / Num.sqrt (var1 a / Num.ofNat a.length + var1 b / Num.ofNat b.length)
/-- Welch–Satterthwaite degrees of freedom -/
def welchDf (a b : List α) : α :=
  let va := var1 a / Num.ofNat a.length
  let vb := var1 b / Num.ofNat b.length
  (va + vb) * (va + vb) / (va * va / Num.ofNat (a.length - 1) + vb * vb / Num.ofNat (b.length - 1))

/-! ### Kuiper: `V = D⁺ + D⁻` versus the KS `D = max(D⁺, D⁻)` the code uses (lattice units) -/
def kuiperV (ref test : List α) : Nat := KS.hPlus ref test + KS.hMinus ref test
def ksD (ref test : List α) : Nat := KS.hTwoSided ref test

end Frouros.Tests2
