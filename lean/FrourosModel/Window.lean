/-
  Model of frouros/detectors/concept_drift/streaming/window_based/{adwin,kswin,stepd}.py
-/
import FrourosModel.Stats
namespace Frouros
open Num

/-! ## ADWIN
Row `i` of `rows` is `Bucket i`: its first `idx` entries `(total, variance)`, oldest first; each
entry summarises `2^i` stream values.  Row 0 is `buckets[0]`. -/
namespace ADWIN
structure Cfg (α : Type) where
  clock : Nat
  delta : α
  m : Nat
  minWindow : Nat
  minN : Nat

structure State (α : Type) where
  n : Nat
  drift : Bool
  rows : List (List (α × α))
  total : α
  variance : α
  width : Nat
  /-- `total` setter rejected a negative value (ValueError) – float cancellation only -/
  err : Bool := false
  /-- `num_buckets` as the code counts it: +1 per inserted value, +1 (sic) per merge in
  `_compress_buckets`, −1 per deleted entry — an additional variable a history callback can record,
  not the number of stored entries -/
  numBuckets : Nat := 0
  /-- `num_max_buckets`: running maximum of `num_buckets`, taken right after an insertion only -/
  numMaxBuckets : Nat := 0
  deriving BEq

variable {α : Type} [Num α]

def init : State α := { n := 0, drift := false, rows := [[]], total := Num.zero, variance := Num.zero, width := 0 }

/-- merged entry of two adjacent buckets of `sz` values each (`_compress_buckets`) -/
def mergeEntries (sz : Nat) (e1 e2 : α × α) : α × α :=
  let s : α := Num.ofNat sz
  let m1 := e1.1 / s
  let m2 := e2.1 / s
  let incr := (Num.ofNat (sz * sz) : α) * (m1 - m2) * (m1 - m2) / Num.ofNat (sz * 2)
  (e1.1 + e2.1, (e1.2 + e2.2) + incr)

/-- `_compress_buckets` from row `i` (= `row`, followed by `rest`) upwards -/
def compress (m : Nat) : Nat → List (α × α) → List (List (α × α)) → List (List (α × α))
  | i, row, rest =>
    if row.length == m + 1 then
      match row with
      | e1 :: e2 :: tl =>
        let merged := mergeEntries (2 ^ i) e1 e2
        match rest with
        | [] => [tl, [merged]]
        | nxt :: rest' =>
          let nxt' := nxt ++ [merged]
          if nxt'.length ≤ m then tl :: nxt' :: rest' else tl :: compress m (i + 1) nxt' rest'
      | _ => row :: rest
    else row :: rest

/-- number of merges `_compress_buckets` performs (same recursion as `compress`) -/
def compressMerges (m : Nat) : Nat → List (α × α) → List (List (α × α)) → Nat
  | i, row, rest =>
    if row.length == m + 1 then
      match row with
      | e1 :: e2 :: _ =>
        let merged := mergeEntries (2 ^ i) e1 e2
        match rest with
        | [] => 1
        | nxt :: rest' =>
          let nxt' := nxt ++ [merged]
          if nxt'.length ≤ m then 1 else 1 + compressMerges m (i + 1) nxt' rest'
      | _ => 0
    else 0

/-- `_insert_bucket` -/
def insert (c : Cfg α) (s : State α) (v : α) : State α :=
  let width := s.width + 1
  let incr : α :=
    if 1 < width then
      let d := v - s.total / Num.ofNat (width - 1)
      (Num.ofNat (width - 1) : α) * d * d / Num.ofNat width
    else Num.zero
  let total := s.total + v
  let rows := match s.rows with
    | [] => [[(v, Num.zero)]]
    | r0 :: rest => compress c.m 0 (r0 ++ [(v, Num.zero)]) rest
  let merges := match s.rows with
    | [] => 0
    | r0 :: rest => compressMerges c.m 0 (r0 ++ [(v, Num.zero)]) rest
  { s with rows := rows, width := width, variance := s.variance + incr, total := total,
           err := s.err || Num.lt total Num.zero,
           numBuckets := s.numBuckets + 1 + merges,
           numMaxBuckets := max s.numMaxBuckets (s.numBuckets + 1) }

/-- `while len(buckets) > 1 and buckets[-1].idx == 0: buckets.pop()` -/
def trimRows (rows : List (List (α × α))) : List (List (α × α)) :=
  match rows.reverse.dropWhile List.isEmpty with
  | [] => [[]]
  | r => r.reverse

/-- `_delete_bucket`: drop the oldest entry (head of the last row) -/
def deleteOldest (s : State α) : State α :=
  let k := s.rows.length - 1
  match s.rows.getLast? with
  | none => s
  | some last =>
    match last with
    | [] => s
    | e :: tl =>
      let sz := 2 ^ k
      let width := s.width - sz
      let total := s.total - e.1
      let bm := e.1 / (Num.ofNat sz : α)
      let wm := total / (Num.ofNat width : α)
      let incr := e.2 + (Num.ofNat (sz * width) : α) * (bm - wm) * (bm - wm) / Num.ofNat (sz + width)
      let rows := if tl.isEmpty then trimRows s.rows.dropLast else s.rows.dropLast ++ [tl]
      { s with rows := rows, width := width, total := total, variance := s.variance - incr,
               err := s.err || Num.lt total Num.zero, numBuckets := s.numBuckets - 1 }

/-- `_calculate_threshold`; the caller guarantees `n0, n1 > min_window_size` -/
def threshold (c : Cfg α) (s : State α) (n0 n1 : Nat) : Option α :=
  let mws := c.minWindow + 1
  if n0 == mws || n1 == mws then none      -- 1/0 = inf at numpy ints: never exceeded
  else
    let dp := Num.log (Num.two * Num.log (Num.ofNat s.width) / c.delta)
    let mr : α := Num.one / Num.ofNat (n0 - mws) + Num.one / Num.ofNat (n1 - mws)
    let vw := s.variance / Num.ofNat s.width
    some (Num.sqrt (Num.two * mr * vw * dp) + Num.two / Num.ofNat 3 * dp * mr)

/-- the entries the scan visits, in order (oldest first): rows from the last to row 0, every entry
except the newest one of row 0 (the loop exits there), as `(bucket size, total)` -/
def examined (rows : List (List (α × α))) : List (Nat × α) :=
  let idxd := (List.range rows.length).zip rows
  ((idxd.reverse.map (fun (i, row) => row.map (fun e => (2 ^ i, e.1)))).flatten).dropLast

/-- one pass of the inner `for` loops: does some examined split exceed the bound? -/
def scan (c : Cfg α) (s : State α) : List (Nat × α) → Nat → Nat → α → α → Bool
  | [], _, _, _, _ => false
  | (sz, t) :: rest, n0, n1, t0, t1 =>
    let n0 := n0 + sz
    let n1 := n1 - sz
    let t0 := t0 + t
    let t1 := t1 - t
    let hit :=
      if c.minWindow < n1 && c.minWindow < n0 then
        match threshold c s n0 n1 with
        | none => false
        | some thr => Num.gt (Num.abs (t0 / Num.ofNat n0 - t1 / Num.ofNat n1)) thr
      else false
    if hit then true else scan c s rest n0 n1 t0 t1

/-- `while flag_reduce_width` with fuel (each iteration deletes one bucket) -/
def checkLoop (c : Cfg α) : Nat → State α → State α
  | 0, s => s
  | fuel + 1, s =>
    if scan c s (examined s.rows) 0 s.width Num.zero s.total then
      if 0 < s.width then checkLoop c fuel { deleteOldest s with drift := true }
      else { s with drift := true }
    else s

def numEntries (s : State α) : Nat := (s.rows.map List.length).sum

def step (c : Cfg α) (s : State α) (v : α) : State α :=
  let s := insert c { s with n := s.n + 1, drift := false } v
  if s.n % c.clock == 0 && c.minN < s.width then checkLoop c (numEntries s + 1) s else s

def reset (s : State α) : State α :=
  { s with n := 0, drift := false, rows := [[]], total := Num.zero, variance := Num.zero, width := 0, err := false,
           numBuckets := 0, numMaxBuckets := 0 }
end ADWIN

/-! ## KSWIN
`ksP older_sample newest` is the two-sample KS p-value (scipy `ks_2samp`, a parameter); `tape` are
the indices `np.random.choice` drew into the older part of the window. -/
namespace KSWIN
structure Cfg (α : Type) where
  alpha : α
  minN : Nat
  numTest : Nat

structure State (α : Type) where
  n : Nat
  drift : Bool
  window : List α        -- oldest first, at most `minN` values
  deriving BEq

variable {α : Type} [Num α]
def init : State α := ⟨0, false, []⟩

/-- `deque(maxlen).append` -/
def push (cap : Nat) (w : List α) (v : α) : List α :=
  let w := w ++ [v]
  if cap < w.length then w.drop (w.length - cap) else w

def step (ksP : List α → List α → α) (c : Cfg α) (s : State α) (v : α) (tape : List Nat) : State α :=
  let w := push c.minN s.window v
  if c.minN ≤ w.length then
    let k := w.length - c.numTest
    let older := w.take k
    let newest := w.drop k
    let sample := tape.map (fun i => older.getD i Num.zero)
    { n := s.n + 1, window := w, drift := Num.le (ksP sample newest) c.alpha }
  else { n := s.n + 1, window := w, drift := false }

def reset (s : State α) : State α := { s with n := 0, drift := false, window := [] }
end KSWIN

/-! ## STEPD  (`sf` = `scipy.stats.norm().sf`, a parameter) -/
namespace STEPD
structure Cfg (α : Type) where
  alphaD : α
  alphaW : α
  minN : Nat

structure State where
  n : Nat
  drift : Bool
  warning : Bool
  correctTotal : Nat
  win : AccQ
  err : Option Err := none
  deriving BEq

variable {α : Type} [Num α]
def init (c : Cfg α) : State := { n := 0, drift := false, warning := false, correctTotal := 0, win := AccQ.init c.minN }

/-- `_calculate_statistic`; `none` stands for `-inf` (zero pooled variance, numpy division) -/
def statistic (n ct nw cw : Nat) : Option α :=
  let no := n - nw
  let co := ct - cw
  let pHat : α := Num.ofNat ct / Num.ofNat n
  let inv : α := Num.one / Num.ofNat no + Num.one / Num.ofNat nw
  let den := Num.sqrt (pHat * (Num.one - pHat) * inv)
  let num := Num.abs ((Num.ofNat co : α) / Num.ofNat no - Num.ofNat cw / Num.ofNat nw) - Num.ofDec 5 1 * inv
  if Num.beq den Num.zero then none else some (num / den)

def step (sf : α → α) (c : Cfg α) (s : State) (v : Bool) : State :=
  let n := s.n + 1
  let ct := s.correctTotal + (if v then 1 else 0)
  match s.win.enqueue v with
  | .error e => { s with n := n, err := some e }
  | .ok win =>
  if 2 * c.minN ≤ n then
    let p : α := match statistic (α := α) n ct win.q.count win.numTrue with
      | none => Num.one
      | some t => sf t
    if Num.lt p c.alphaD then { s with n := n, correctTotal := ct, win := win, drift := true, warning := false }
    else { s with n := n, correctTotal := ct, win := win, drift := false, warning := Num.lt p c.alphaW }
  else { s with n := n, correctTotal := ct, win := win, drift := false, warning := false }

def reset (s : State) : State :=
  { s with n := 0, drift := false, warning := false, correctTotal := 0, win := s.win.clear }
end STEPD

end Frouros
