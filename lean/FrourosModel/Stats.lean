/-
  Model of frouros/utils/stats.py (Mean, CircularMean, EWMA), frouros/utils/data_structures.py
  (CircularQueue, AccuracyQueue) and frouros/metrics/prequential_error.py.
-/
import FrourosModel.Num
namespace Frouros
open Num

/-- error kinds shared with the harness (closed enum) -/
inductive Err where
  | value | type | zeroDivision | emptyQueue | missingFit | dimension | mismatchDimension
  | insufficientSamples | invalidARL | invalidBlock | download | index | other
  deriving Repr, DecidableEq, Inhabited

def Err.name : Err → String
  | .value => "Value" | .type => "Type" | .zeroDivision => "ZeroDivision"
  | .emptyQueue => "EmptyQueue" | .missingFit => "MissingFit" | .dimension => "Dimension"
  | .mismatchDimension => "MismatchDimension" | .insufficientSamples => "InsufficientSamples"
  | .invalidARL => "InvalidAverageRunLength" | .invalidBlock => "InvalidBlock"
  | .download => "Download" | .index => "Index" | .other => "Other"

/-! ### Mean  (stats.py:37-111) -/
structure Mean (α : Type) where
  mean : α
  n : Nat
  deriving Repr, BEq, DecidableEq

namespace Mean
variable {α : Type} [Num α]
def init : Mean α := ⟨Num.zero, 0⟩
/-- `num_values += 1; mean += (value - mean) / num_values` -/
def update (s : Mean α) (v : α) : Mean α :=
  let n' := s.n + 1
  ⟨s.mean + (v - s.mean) / Num.ofNat n', n'⟩
end Mean

/-! ### EWMA  (stats.py:147-215) -/
structure EWMA (α : Type) where
  alpha : α
  oneMinus : α
  mean : α
  deriving Repr, BEq, DecidableEq

namespace EWMA
variable {α : Type} [Num α]
def init (alpha : α) : EWMA α := ⟨alpha, Num.one - alpha, Num.zero⟩
/-- `mean = alpha * value + one_minus_alpha * mean` -/
def update (s : EWMA α) (v : α) : EWMA α := { s with mean := s.alpha * v + s.oneMinus * s.mean }
end EWMA

/-! ### CircularQueue  (data_structures.py:32-231)
`last` starts at -1 in Python; `none` here.  `buf` is the backing list of length `maxLen`. -/
structure CQ (β : Type) where
  count : Nat
  first : Nat
  last : Option Nat
  maxLen : Nat
  buf : List (Option β)
  deriving Repr, BEq, DecidableEq

namespace CQ
variable {β : Type}

def init (n : Nat) : CQ β := ⟨0, 0, none, n, List.replicate n none⟩
def isEmpty (q : CQ β) : Bool := q.count == 0
def isFull (q : CQ β) : Bool := q.count == q.maxLen
def clear (q : CQ β) : CQ β := { q with count := 0, first := 0, last := none, buf := List.replicate q.maxLen none }

/-- `dequeue`: EmptyQueueError on an empty queue -/
def dequeue (q : CQ β) : Except Err (Option β × CQ β) :=
  if q.isEmpty then .error .emptyQueue
  else .ok ((q.buf.getD q.first none), { q with first := (q.first + 1) % q.maxLen, count := q.count - 1 })

def nextLast (q : CQ β) : Nat := match q.last with | none => 0 % q.maxLen | some l => (l + 1) % q.maxLen

/-- `enqueue`: evicts (and returns) the oldest element when full -/
def enqueue (q : CQ β) (v : β) : Except Err (Option β × CQ β) :=
  let step (evicted : Option β) (q : CQ β) : Option β × CQ β :=
    let l := q.nextLast
    (evicted, { q with last := some l, buf := q.buf.set l (some v), count := q.count + 1 })
  if q.isFull then
    match q.dequeue with
    | .error e => .error e
    | .ok (e, q') => .ok (step e q')
  else .ok (step none q)

/-- `maintain_last_element` (after the fix: EmptyQueueError on an empty queue) -/
def keepLast (q : CQ β) : Except Err (CQ β) :=
  if q.isEmpty then .error .emptyQueue
  else match q.last with
    | none => .error .value          -- `first = -1` is rejected by the setter (unreachable: count > 0 ⇒ last ≠ -1)
    | some l => .ok { q with first := l, count := 1 }

def get (q : CQ β) (idx : Nat) : Option β := q.buf.getD idx none

/-- abstraction: contents oldest first -/
def toList (q : CQ β) : List (Option β) :=
  (List.range q.count).map (fun i => q.buf.getD ((q.first + i) % q.maxLen) none)

/-- `np.array(queue)`: the raw backing list (iteration through `__getitem__`) -/
def raw (q : CQ β) : List (Option β) := q.buf
end CQ

/-! ### AccuracyQueue  (data_structures.py:234-310) -/
structure AccQ where
  q : CQ Bool
  numTrue : Nat
  deriving Repr, BEq, DecidableEq

namespace AccQ
def init (n : Nat) : AccQ := ⟨CQ.init n, 0⟩
def numFalse (a : AccQ) : Int := (a.q.count : Int) - a.numTrue
def clear (a : AccQ) : AccQ := ⟨a.q.clear, 0⟩
def dequeue (a : AccQ) : Except Err (Option Bool × AccQ) :=
  match a.q.dequeue with
  | .error e => .error e
  | .ok (e, q') => .ok (e, ⟨q', a.numTrue - (if e == some true then 1 else 0)⟩)
/-- AccuracyQueue.enqueue: the eviction goes through the overridden `dequeue` (dynamic dispatch) -/
def enqueue (a : AccQ) (v : Bool) : Except Err AccQ :=
  let fin (a : AccQ) : AccQ :=
    let l := a.q.nextLast
    ⟨{ a.q with last := some l, buf := a.q.buf.set l (some v), count := a.q.count + 1 },
     a.numTrue + (if v then 1 else 0)⟩
  if a.q.isFull then
    match a.dequeue with
    | .error e => .error e
    | .ok (_, a') => .ok (fin a')
  else .ok (fin a)
def keepLast (a : AccQ) : Except Err AccQ :=
  match a.q.keepLast with
  | .error e => .error e
  | .ok q' => .ok ⟨q', if q'.buf.getD q'.first none == some true then 1 else 0⟩
end AccQ

/-! ### CircularMean (stats.py:115-144) -/
structure CircMean (α : Type) where
  mean : α
  n : Nat
  q : CQ α

namespace CircMean
variable {α : Type} [Num α]
def init (size : Nat) : CircMean α := ⟨Num.zero, 0, CQ.init size⟩
def update (s : CircMean α) (v : α) : Except Err (CircMean α) :=
  match s.q.enqueue v with
  | .error e => .error e
  | .ok (ev, q') =>
    let n' := q'.count
    let element := match ev with | none => s.mean | some e => e
    .ok ⟨s.mean + (v - element) / Num.ofNat n', n', q'⟩
end CircMean

/-! ### PrequentialError (metrics/prequential_error.py) -/
structure Preq (α : Type) where
  alpha : α
  cumErr : α
  cumInst : α
  numInstances : Nat

namespace Preq
variable {α : Type} [Num α]
def init (alpha : α) : Preq α := ⟨alpha, Num.zero, Num.zero, 0⟩
/-- `__call__`: returns the fading error and the new state -/
def call (s : Preq α) (e : α) : α × Preq α :=
  let ce := s.cumErr * s.alpha + e
  let ci := s.cumInst * s.alpha + Num.one
  (ce / ci, { s with cumErr := ce, cumInst := ci })
def reset (s : Preq α) : Preq α := { s with cumErr := Num.zero, cumInst := Num.zero, numInstances := 0 }
end Preq

end Frouros
