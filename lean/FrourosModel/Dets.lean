/-
  Uniform wrapper around the 13 concept-drift detector models for the driver: creation from
  `k=v` arguments, update, reset, observables.
-/
import FrourosModel.SPC
import FrourosModel.Window
import FrourosModel.Change
import FrourosModel.Ext
import FrourosModel.KS
import FrourosModel.Carrier
import FrourosModel.Wire
namespace Frouros
open Wire

/-- observable token -/
inductive Tok where
  | i (n : Int) | b (v : Bool) | f (x : Float) | none | s (t : String)

def Tok.render : Tok → String
  | .i n => toString n
  | .b v => bit v
  | .f x => "x" ++ hexOfFloat x
  | .none => "-"
  | .s t => t

/-- discrete part of an observation (what must agree between the biased carriers) -/
def Tok.discrete : Tok → String
  | .f _ => "f"
  | t => t.render

inductive Det (α : Type) where
  | ddm (c : DDM.Cfg α) (s : DDM.State α)
  | rddm (c : RDDM.Cfg α) (s : RDDM.State α)
  | eddm (c : EDDM.Cfg α) (s : EDDM.State α)
  | ecdd (c : ECDD.Cfg α) (s : ECDD.State α)
  | hddma (c : HDDMA.Cfg α) (s : HDDMA.State α)
  | hddmw (c : HDDMW.Cfg α) (s : HDDMW.State α)
  | adwin (c : ADWIN.Cfg α) (s : ADWIN.State α)
  | kswin (c : KSWIN.Cfg α) (s : KSWIN.State α)
  | stepd (c : STEPD.Cfg α) (s : STEPD.State)
  | cusum (c : CUSUMFam.Cfg α) (s : CUSUMFam.State α)
  | bocd (c : BOCD.Cfg α) (s : BOCD.State α)

namespace Det
variable {α : Type} [Carrier α]

private def F (x : Float) : α := Carrier.ofFloat x
private def T (x : α) : Tok := .f (Carrier.toFloat x)
private def TO (x : Option α) : Tok := match x with | none => .none | some v => T v

def create (cls : String) (a : List String) : Option (Det α) :=
  let f (k : String) (d : Float) : α := F (argF a k d)
  let n (k : String) (d : Nat) : Nat := argN a k d
  match cls with
  | "DDM" =>
    let c : DDM.Cfg α := ⟨f "warning_level" 2.0, f "drift_level" 3.0, n "min_num_instances" 30⟩
    some (.ddm c DDM.init)
  | "RDDM" =>
    let c : RDDM.Cfg α := ⟨f "warning_level" 1.773, f "drift_level" 2.258, n "min_num_instances" 129,
      n "max_concept_size" 40000, n "min_concept_size" 7000, n "max_num_instances_warning" 1400⟩
    some (.rddm c (RDDM.init c))
  | "EDDM" =>
    let c : EDDM.Cfg α := ⟨f "alpha" 0.95, f "beta" 0.9, f "level" 2.0, n "min_num_misclassified_instances" 30⟩
    some (.eddm c EDDM.init)
  | "ECDDWT" =>
    let c : ECDD.Cfg α := ⟨f "lambda_" 0.2, n "average_run_length" 400, f "warning_level" 0.5, n "min_num_instances" 30⟩
    some (.ecdd c (ECDD.init c))
  | "HDDMA" =>
    let c : HDDMA.Cfg α := ⟨f "alpha_d" 0.001, f "alpha_w" 0.005, argB a "two_sided_test" false, n "min_num_instances" 30⟩
    some (.hddma c HDDMA.init)
  | "HDDMW" =>
    let c : HDDMW.Cfg α := ⟨f "alpha_d" 0.001, f "alpha_w" 0.005, argB a "two_sided_test" false, f "lambda_" 0.05, n "min_num_instances" 30⟩
    some (.hddmw c (HDDMW.init c))
  | "ADWIN" =>
    let c : ADWIN.Cfg α := ⟨n "clock" 32, f "delta" 0.002, n "m" 5, n "min_window_size" 5, n "min_num_instances" 10⟩
    some (.adwin c ADWIN.init)
  | "KSWIN" =>
    let c : KSWIN.Cfg α := ⟨f "alpha" 0.0001, n "min_num_instances" 100, n "num_test_instances" 30⟩
    some (.kswin c KSWIN.init)
  | "STEPD" =>
    let c : STEPD.Cfg α := ⟨f "alpha_d" 0.003, f "alpha_w" 0.05, n "min_num_instances" 30⟩
    some (.stepd c (STEPD.init c))
  | "CUSUM" =>
    let c : CUSUMFam.Cfg α := ⟨.cusum, f "lambda_" 50.0, f "delta" 0.005, F 0.0, n "min_num_instances" 30⟩
    some (.cusum c CUSUMFam.init)
  | "PageHinkley" =>
    let c : CUSUMFam.Cfg α := ⟨.pageHinkley, f "lambda_" 50.0, f "delta" 0.005, f "alpha" 0.9999, n "min_num_instances" 30⟩
    some (.cusum c CUSUMFam.init)
  | "GeometricMovingAverage" =>
    let c : CUSUMFam.Cfg α := ⟨.gma, f "lambda_" 1.0, F 0.0, f "alpha" 0.99, n "min_num_instances" 30⟩
    some (.cusum c CUSUMFam.init)
  | "BOCD" =>
    let h := argF a "hazard" 0.01
    let c : BOCD.Cfg α := ⟨f "prior_mean" 0.0, f "prior_var" 1.0, f "data_var" 1.0,
      F (Float.log h), F (Float.log (1.0 - h)), n "min_num_instances" 30⟩
    some (.bocd c (BOCD.init c))
  | _ => none

def bocdFns : BOCD.Fns α :=
  { logSumExp := fun l => F (Ext.logSumExp (l.map Carrier.toFloat)), logC := F 0.9189385332046727 }

def ksP (a b : List α) : α := F (KS.pTwoSided (a.map Carrier.toFloat) (b.map Carrier.toFloat))
def normSf (x : α) : α := F (Ext.normSf (Carrier.toFloat x))

/-- `update(value)`; `tape` are KSWIN's sampled indices -/
def update (d : Det α) (v : Float) (tape : List Nat) : Det α :=
  match d with
  | .ddm c s => .ddm c (DDM.step c s (F v))
  | .rddm c s => .rddm c (RDDM.step c s (F v))
  | .eddm c s => .eddm c (EDDM.step c s (F v))
  | .ecdd c s => .ecdd c (ECDD.step c s (F v))
  | .hddma c s => .hddma c (HDDMA.step c s (F v))
  | .hddmw c s => .hddmw c (HDDMW.step c s (F v))
  | .adwin c s => .adwin c (ADWIN.step c s (F v))
  | .kswin c s => .kswin c (KSWIN.step ksP c s (F v) tape)
  | .stepd c s => .stepd c (STEPD.step (α := α) normSf c s (v != 0.0))
  | .cusum c s => .cusum c (CUSUMFam.step c s (F v))
  | .bocd c s => .bocd c (BOCD.step bocdFns c s (F v))

def reset (d : Det α) : Det α :=
  match d with
  | .ddm c s => .ddm c (DDM.reset s)
  | .rddm c s => .rddm c (RDDM.reset s)
  | .eddm c s => .eddm c (EDDM.reset s)
  | .ecdd c s => .ecdd c (ECDD.reset c s)
  | .hddma c s => .hddma c (HDDMA.reset s)
  | .hddmw c s => .hddmw c (HDDMW.reset c s)
  | .adwin c s => .adwin c (ADWIN.reset s)
  | .kswin c s => .kswin c (KSWIN.reset s)
  | .stepd c s => .stepd c (STEPD.reset s)
  | .cusum c s => .cusum c (CUSUMFam.reset s)
  | .bocd c s => .bocd c (BOCD.reset c s)

private def pair (m : Option (α × α)) : List Tok :=
  match m with | none => [.none, .none] | some (p, s) => [T p, T s]

/-- observables: `num_instances drift warning | public statistics` (same order as harness/obs.py) -/
def obs (d : Det α) : List Tok :=
  match d with
  | .ddm _ s => [.i s.n, .b s.drift, .b s.warning, T s.er.mean, .i s.er.n] ++ pair s.minPS
  | .rddm _ s => (match s.err with
      | some e => [.s ("err:" ++ e.name)]
      | none => [.i s.n, .b s.drift, .b s.warning, T s.er.mean, .i s.er.n] ++ pair s.minPS ++
                [.i s.numWarnings, .b s.rddmDrift, .i s.preds.count])
  | .eddm _ s => [.i s.n, .b s.drift, .b s.warning, T s.mean, T s.std, T s.var, TO s.maxThr, .i s.numMis, .i s.lastErr]
  | .ecdd _ s => [.i s.n, .b s.drift, .b s.warning, T s.p.mean, T s.z.mean]
  | .hddma c s => [.i s.n, .b s.drift, .b s.warning, T s.t.x.mean, .i s.t.x.n, T s.t.z.mean, .i s.t.z.n] ++
      (if c.twoSided then [T s.t.y.mean, .i s.t.y.n] else [])
  | .hddmw c s => [.i s.n, .b s.drift, .b s.warning, T s.t.total.ewma.mean, T s.t.total.ibc,
        T s.t.inc1.ewma.mean, T s.t.inc2.ewma.mean, TO s.t.incCut] ++
      (if c.twoSided then [T s.t.dec1.ewma.mean, T s.t.dec2.ewma.mean, TO s.t.decCut] else [])
  | .adwin _ s => if s.err then [.s "err:Value"] else
      [.i s.n, .b s.drift, .none, .i s.width, T s.total, T s.variance,
       .s ("rows=" ++ ",".intercalate (s.rows.map (fun r => toString r.length))), .i s.numBuckets, .i s.numMaxBuckets]
  | .kswin _ s => [.i s.n, .b s.drift, .none, .i s.window.length]
  | .stepd _ s => (match s.err with
      | some e => [.s ("err:" ++ e.name)]
      | none => [.i s.n, .b s.drift, .b s.warning, .i s.correctTotal, .i s.win.q.count, .i s.win.numTrue])
  | .cusum _ s => [.i s.n, .b s.drift, .none, T s.sum, T s.mean.mean]
  | .bocd _ s => [.i s.n, .b s.drift, .none, TO s.predMean, TO s.predVar] ++ s.row.map T

end Det
end Frouros
