/-
  Model of frouros/detectors/data_drift/streaming/statistical_test/ks.py (IncrementalKSTest) as a state machine:
  fit / update / reset over the circular queue; the test itself is `KS.statistic`, `KS.hTwoSided`, `KS.pExactFrac`.
-/
import FrourosModel.Stats
import FrourosModel.KS
import FrourosModel.Hist
namespace Frouros.IncKS
open Frouros

structure State (α : Type) where
  n : Nat
  window : Nat
  /-- sorted reference (`np.sort(X)`) -/
  ref : Option (List α)
  /-- `gcd(len(X), window_size)` when both sizes are at most 10 000, else `None` (asymptotic branch) -/
  gcd : Option Nat
  q : CQ α

/-- result of one update once the window is full: statistic, lattice statistic `h`, exact p-value as a fraction -/
structure Result (α : Type) where
  statistic : α
  h : Nat
  /-- exact p-value as a fraction; `none`: asymptotic branch -/
  p : Option (Nat × Nat)

variable {α : Type} [Num α]

def maxAutoN : Nat := 10000

def init (w : Nat) : State α := ⟨0, w, none, none, CQ.init w⟩

def fit (s : State α) (xs : List α) : State α :=
  { s with ref := some (Hist.sort xs),
           gcd := if max xs.length s.window ≤ maxAutoN then some (Nat.gcd xs.length s.window) else s.gcd }

/-- `update` on an unfitted detector raises MissingFitError before anything is counted or stored -/
def updateErr (s : State α) : Option Err := if s.ref.isNone then some .missingFit else none

/-- the p-value of a result: `some` exact fraction when `max(n, w) ≤ 10000`, `none` on the asymptotic
branch (`kstwo.sf`, left to scipy) -/
def pOf (n w h : Nat) : Option (Nat × Nat) :=
  if max n w ≤ maxAutoN then some (KS.pExactFrac n w h) else none

/-- `update`: unfitted → nothing changes (see `updateErr`); `none` until `window` values have arrived -/
def update (s : State α) (v : α) : Option (Result α) × State α :=
  match s.ref with
  | none => (none, s)
  | some r =>
    match s.q.enqueue v with
    | .error _ => (none, s)
    | .ok (_, q) =>
      let s := { s with n := s.n + 1, q := q }
      if s.n < s.window then (none, s)
      else
        let w := q.raw.filterMap id
        let h := KS.hTwoSided r w
        (some ⟨KS.statistic r w, h, pOf r.length w.length h⟩, s)

/-- `reset()`: `X_ref = None`, `num_instances = 0`, `gcd = None`, queue cleared -/
def reset (s : State α) : State α := { s with n := 0, ref := none, gcd := none, q := s.q.clear }

end Frouros.IncKS
