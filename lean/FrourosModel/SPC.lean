/-
  Model of frouros/detectors/concept_drift/streaming/statistical_process_control/
  {base,ddm,eddm,ecdd,rddm,hddm}.py – one `Cfg`, `State`, `init`, `step`, `reset` per detector.
  `Option α` stands for the ±inf initial values of the Python code (`none` = not yet set).
-/
import FrourosModel.Stats
namespace Frouros
open Num

/-! ## DDM -/
namespace DDM
structure Cfg (α : Type) where
  warn : α
  drift : α
  minN : Nat

structure State (α : Type) where
  n : Nat
  drift : Bool
  warning : Bool
  er : Mean α
  /-- `(min_error_rate, min_std)`; `none` = both `inf` -/
  minPS : Option (α × α)
  deriving BEq

variable {α : Type} [Num α]

def init : State α := ⟨0, false, false, Mean.init, none⟩

/-- `_calculate_error_rate_plus_std` : `(error_rate + std, std)` with `std = sqrt(p (1-p) / n)` -/
def epsStd (er : Mean α) (n : Nat) : α × α :=
  let std := Num.sqrt (er.mean * (Num.one - er.mean) / Num.ofNat n)
  (er.mean + std, std)

/-- `error_rate_plus_std < min_error_rate + min_std` (`inf` when unset) -/
def belowMin (eps : α) (m : Option (α × α)) : Bool :=
  match m with
  | none => true
  | some (p, s) => Num.lt eps (p + s)

/-- `_check_threshold`: `error_rate_plus_std > min_error_rate + level * min_std` -/
def exceeds (eps : α) (m : Option (α × α)) (level : α) : Bool :=
  match m with
  | none => false
  | some (p, s) => Num.gt eps (p + level * s)

def step (c : Cfg α) (s : State α) (v : α) : State α :=
  let n := s.n + 1
  let er := s.er.update v
  if c.minN ≤ n then
    let (eps, std) := epsStd er n
    let m := if belowMin eps s.minPS then some (er.mean, std) else s.minPS
    if exceeds eps m c.drift then
      { n := n, er := er, minPS := m, drift := true, warning := false }
    else if exceeds eps m c.warn then
      { n := n, er := er, minPS := m, drift := false, warning := true }
    else
      { n := n, er := er, minPS := m, drift := false, warning := false }
  else
    { n := n, er := er, minPS := s.minPS, drift := false, warning := false }

/-- `BaseSPCError.reset` as written (field by field) -/
def reset (s : State α) : State α :=
  { s with n := 0, drift := false, warning := false, er := Mean.init, minPS := none }
end DDM

/-! ## RDDM -/
namespace RDDM
structure Cfg (α : Type) where
  warn : α
  drift : α
  minN : Nat
  maxConcept : Nat
  minConcept : Nat
  maxWarn : Nat

structure State (α : Type) where
  n : Nat
  drift : Bool
  warning : Bool
  er : Mean α
  minPS : Option (α × α)
  numWarnings : Nat
  rddmDrift : Bool
  preds : CQ α
  /-- set when a queue operation raised (only with capacity 0, rejected by the config) -/
  err : Option Err := none

variable {α : Type} [Num α]

def init (c : Cfg α) : State α :=
  { n := 0, drift := false, warning := false, er := Mean.init, minPS := none,
    numWarnings := 0, rddmDrift := false, preds := CQ.init c.minConcept }

/-- the replay loop of `_rdd_drift_case` : `k` remaining items starting at `pos` -/
def replay (c : Cfg α) (drift : Bool) (q : CQ α) :
    Nat → Nat → Nat → Mean α → Option (α × α) → Nat × Mean α × Option (α × α)
  | 0, _, n, er, m => (n, er, m)
  | k+1, pos, n, er, m =>
    let n := n + 1
    let x : α := match q.get pos with | some x => x | none => Num.zero
    let er := er.update x
    let (eps, std) := DDM.epsStd er n
    let m := if drift && decide (c.minN ≤ n) && DDM.belowMin eps m then some (er.mean, std) else m
    replay c drift q k ((pos + 1) % c.minConcept) n er m

/-- `_rdd_drift_case` -/
def rebuild (c : Cfg α) (s : State α) : State α :=
  let (n, er, m) := replay c s.drift s.preds s.preds.count s.preds.first 0 Mean.init none
  { s with n := n, er := er, minPS := m, numWarnings := 0, rddmDrift := false, drift := false }

def keepLast (s : State α) : State α :=
  match s.preds.keepLast with
  | .ok q => { s with preds := q }
  | .error e => { s with err := some e }

def step (c : Cfg α) (s0 : State α) (v : α) : State α :=
  let s := { s0 with n := s0.n + 1 }
  let s := if s.rddmDrift then rebuild c s else s
  match s.preds.enqueue v with
  | .error e => { s with err := some e }
  | .ok (_, q) =>
  let s := { s with preds := q, er := s.er.update v }
  if c.minN ≤ s.n then
    let (eps, std) := DDM.epsStd s.er s.n
    let m := if DDM.belowMin eps s.minPS then some (s.er.mean, std) else s.minPS
    let s := { s with minPS := m }
    if DDM.exceeds eps m c.drift then
      let s := { s with rddmDrift := true, drift := true, warning := false }
      if s.numWarnings == 0 then keepLast s else s
    else
      let s :=
        if DDM.exceeds eps m c.warn then
          if c.maxWarn ≤ s.numWarnings then
            keepLast { s with rddmDrift := true, drift := true, warning := false }
          else
            { s with warning := true, numWarnings := s.numWarnings + 1, drift := false }
        else
          { s with drift := false, warning := false, numWarnings := 0 }
      if decide (c.maxConcept ≤ s.n) && !s.warning then { s with rddmDrift := true } else s
  else
    { s with drift := false, warning := false }

/-- `RDDM.reset` (after the fix) field by field -/
def reset (s : State α) : State α :=
  { s with n := 0, drift := false, warning := false, er := Mean.init, minPS := none,
           numWarnings := 0, rddmDrift := false, preds := s.preds.clear }
end RDDM

/-! ## EDDM -/
namespace EDDM
structure Cfg (α : Type) where
  alpha : α
  beta : α
  level : α
  minMis : Nat

structure State (α : Type) where
  n : Nat
  drift : Bool
  warning : Bool
  lastErr : Nat
  maxThr : Option α        -- `none` = -inf
  mean : α
  numMis : Nat
  oldMean : α
  std : α
  var : α
  deriving BEq

variable {α : Type} [Num α]
def init : State α :=
  { n := 0, drift := false, warning := false, lastErr := 0, maxThr := none, mean := Num.zero,
    numMis := 0, oldMean := Num.zero, std := Num.zero, var := Num.zero }

def step (c : Cfg α) (s : State α) (v : α) : State α :=
  let n := s.n + 1
  if Num.beq v (Num.one : α) then
    let numMis := s.numMis + 1
    let distance : α := Num.ofNat (n - s.lastErr)
    let oldMean := s.mean
    let mean := s.mean + (distance - s.mean) / Num.ofNat numMis
    let var := s.var + (distance - mean) * (distance - oldMean)
    let std := Num.sqrt (var / Num.ofNat numMis)
    let s := { s with n := n, numMis := numMis, oldMean := oldMean, mean := mean, var := var,
                      std := std, lastErr := n }
    if c.minMis ≤ n then
      let thr := mean + c.level * std
      let newMax := match s.maxThr with | none => true | some mx => Num.gt thr mx
      if newMax then
        { s with maxThr := some thr, drift := false, warning := false }
      else if c.minMis ≤ numMis then
        let mx : α := match s.maxThr with | none => Num.one | some mx => mx
        let p := thr / mx
        if Num.lt p c.beta then { s with drift := true, warning := false }
        else { s with warning := Num.lt p c.alpha, drift := false }
      else s
    else s
  else
    { s with n := n, drift := false, warning := false }

def reset (s : State α) : State α :=
  { s with n := 0, drift := false, warning := false, lastErr := 0, maxThr := none,
           mean := Num.zero, numMis := 0, oldMean := Num.zero, std := Num.zero, var := Num.zero }
end EDDM

/-! ## ECDD-WT -/
namespace ECDD
structure Cfg (α : Type) where
  lam : α
  arl : Nat      -- 100 | 400 | 1000
  warn : α
  minN : Nat

structure State (α : Type) where
  n : Nat
  drift : Bool
  warning : Bool
  p : Mean α
  z : EWMA α
  deriving BEq

variable {α : Type} [Num α]

/-- Ross et al. control-limit polynomials (base.py `_control_limit_*`) -/
def controlLimit (arl : Nat) (p : α) : α :=
  let p3 := Num.npow p 3; let p5 := Num.npow p 5; let p7 := Num.npow p 7
  let d (m e : Nat) : α := Num.ofDec m e
  if arl == 100 then d 276 2 - d 623 2 * p + d 1812 2 * p3 - d 31245 2 * p5 + d 100218 2 * p7
  else if arl == 400 then d 397 2 - d 656 2 * p + d 4873 2 * p3 - d 33013 2 * p5 + d 84818 2 * p7
  else d 117 2 + d 756 2 * p - d 2124 2 * p3 + d 11212 2 * p5 - d 98723 2 * p7

def init (c : Cfg α) : State α := ⟨0, false, false, Mean.init, EWMA.init c.lam⟩

def lamDiv (c : Cfg α) : α := c.lam / (Num.two - c.lam)

def step (c : Cfg α) (s : State α) (v : α) : State α :=
  let n := s.n + 1
  let p := s.p.update v
  let z := s.z.update v
  if c.minN ≤ n then
    let erv := p.mean * (Num.one - p.mean)
    let zvar := Num.sqrt (lamDiv c * (Num.one - Num.npow z.oneMinus (2 * n)) * erv)
    let L := controlLimit c.arl p.mean
    if Num.gt z.mean (p.mean + (Num.one : α) * L * zvar) then
      { n := n, p := p, z := z, drift := true, warning := false }
    else
      { n := n, p := p, z := z, drift := false,
        warning := Num.gt z.mean (p.mean + c.warn * L * zvar) }
  else
    { n := n, p := p, z := z, drift := false, warning := false }

def reset (c : Cfg α) (s : State α) : State α :=
  { s with n := 0, drift := false, warning := false, p := Mean.init, z := EWMA.init c.lam }
end ECDD

/-! ## HDDM-A -/
namespace HDDMA
structure Cfg (α : Type) where
  alphaD : α
  alphaW : α
  twoSided : Bool
  minN : Nat

structure Test (α : Type) where
  x : Mean α
  z : Mean α
  y : Mean α       -- only used by the two-sided test
  deriving BEq

structure State (α : Type) where
  n : Nat
  drift : Bool
  warning : Bool
  t : Test α
  deriving BEq

variable {α : Type} [Num α]

def Test.init : Test α := ⟨Mean.init, Mean.init, Mean.init⟩
def init : State α := ⟨0, false, false, Test.init⟩

/-- `hoeffding_error_bound` : `sqrt(log(1/alpha_d) / (2 n))` -/
def bound (c : Cfg α) (n : Nat) : α := Num.sqrt (Num.log (Num.one / c.alphaD) / Num.ofNat (2 * n))

/-- `_check_mean_increase` / `_check_mean_decrease` : `hi - lo >= sqrt(m / (2 n_c n_z) * log(1/alpha))` -/
def hoeffTest (m nc nz : Nat) (hi lo alpha : α) : Bool :=
  let thr := Num.sqrt ((Num.ofNat m : α) / Num.ofNat (2 * nc * nz) * Num.log (Num.one / alpha))
  Num.ge (hi - lo) thr

/-- one side of `check_cases` : (drift, warning) -/
def side (c : Cfg α) (cut z : Mean α) (increase : Bool) : Bool × Bool :=
  let m := z.n - cut.n
  if m == 0 then (false, false)
  else
    let (hi, lo) := if increase then (z.mean, cut.mean) else (cut.mean, z.mean)
    if hoeffTest m cut.n z.n hi lo c.alphaD then (true, false)
    else if hoeffTest m cut.n z.n hi lo c.alphaW then (false, true)
    else (false, false)

def checkCases (c : Cfg α) (t : Test α) : Bool × Bool :=
  let (di, wi) := side c t.x t.z true
  if c.twoSided then
    let (dd, wd) := side c t.y t.z false
    (di || dd, wi || wd)
  else (di, wi)

def step (c : Cfg α) (s : State α) (v : α) : State α :=
  let n := s.n + 1
  let z := s.t.z.update v
  -- set_initial_cut_mean
  let x := if s.t.x.n == 0 then z else s.t.x
  let y := if c.twoSided && s.t.y.n == 0 then z else s.t.y
  -- update_cut_point
  let epsZ := bound c z.n
  let x := if Num.le (z.mean + epsZ) (x.mean + bound c x.n) then z else x
  let y := if c.twoSided && Num.le (y.mean - bound c y.n) (z.mean - epsZ) then z else y
  let t : Test α := ⟨x, z, y⟩
  if c.minN ≤ n then
    let (d, w) := checkCases c t
    if d then { n := n, drift := true, warning := false, t := Test.init }
    else { n := n, drift := false, warning := w, t := t }
  else { n := n, drift := false, warning := false, t := t }

/-- `HDDMA.reset` (after the fix) -/
def reset (s : State α) : State α := { s with n := 0, drift := false, warning := false, t := Test.init }
end HDDMA

/-! ## HDDM-W -/
namespace HDDMW
structure Cfg (α : Type) where
  alphaD : α
  alphaW : α
  twoSided : Bool
  lam : α
  minN : Nat

structure Sample (α : Type) where
  ewma : EWMA α
  ibc : α
  deriving BEq

structure Test (α : Type) where
  total : Sample α
  inc1 : Sample α
  inc2 : Sample α
  incCut : Option α     -- `none` = +inf
  dec1 : Sample α
  dec2 : Sample α
  decCut : Option α     -- `none` = -inf
  deriving BEq

structure State (α : Type) where
  n : Nat
  drift : Bool
  warning : Bool
  t : Test α
  deriving BEq

variable {α : Type} [Num α]

def Sample.init (lam : α) : Sample α := ⟨EWMA.init lam, Num.one⟩
/-- `SampleInfo.update` -/
def Sample.update (lam : α) (s : Sample α) (v : α) : Sample α :=
  let e := s.ewma.update v
  ⟨e, lam * lam + (e.oneMinus * e.oneMinus) * s.ibc⟩

def Test.init (lam : α) : Test α :=
  let f := Sample.init lam
  ⟨f, f, f, none, f, f, none⟩
def init (c : Cfg α) : State α := ⟨0, false, false, Test.init c.lam⟩

/-- `_mcdiarmid_error_bound` : `sqrt(ibc * log(1/alpha) / 2)` -/
def mcBound (ibc alpha : α) : α := Num.sqrt (ibc * Num.log (Num.one / alpha) / Num.two)

/-- `_check_threshold(sample_1, sample_2, alpha)` -/
def thr (s1 s2 : Sample α) (alpha : α) : Bool :=
  Num.gt (s2.ewma.mean - s1.ewma.mean) (mcBound (s1.ibc + s2.ibc) alpha)

/-- `update_stats(value, alpha = lambda_)` -/
def updateStats (c : Cfg α) (t : Test α) (v : α) : Test α :=
  let total := Sample.update c.lam t.total v
  let eps := mcBound total.ibc c.lam
  let up := total.ewma.mean + eps
  let newInc := match t.incCut with | none => true | some cp => Num.lt up cp
  let t := if newInc then { t with total := total, incCut := some up, inc1 := total, inc2 := Sample.init c.lam }
           else { t with total := total, inc2 := Sample.update c.lam t.inc2 v }
  if c.twoSided then
    let dn := total.ewma.mean - eps
    let newDec := match t.decCut with | none => true | some cp => Num.gt dn cp
    if newDec then { t with decCut := some dn, dec1 := total, dec2 := Sample.init c.lam }
    else { t with dec2 := Sample.update c.lam t.dec2 v }
  else t

def checkChanges (c : Cfg α) (t : Test α) : Bool × Bool :=
  let di := thr t.inc1 t.inc2 c.alphaD
  let wi := if di then false else thr t.inc1 t.inc2 c.alphaW
  if c.twoSided then
    let dd := if di then false else thr t.dec2 t.dec1 c.alphaD
    let wd := if wi || dd then false else thr t.dec2 t.dec1 c.alphaW
    (di || dd, wi || wd)
  else (di, wi)

def step (c : Cfg α) (s : State α) (v : α) : State α :=
  let n := s.n + 1
  let t := updateStats c s.t v
  if c.minN ≤ n then
    let (d, w) := checkChanges c t
    if d then { n := n, drift := true, warning := false, t := Test.init c.lam }
    else { n := n, drift := false, warning := w, t := t }
  else { n := n, drift := false, warning := false, t := t }

def reset (c : Cfg α) (s : State α) : State α :=
  { s with n := 0, drift := false, warning := false, t := Test.init c.lam }
end HDDMW

end Frouros
