/-
  Branch tags: which path of the model's `step` an update took.  Used ONLY to measure what the
  correspondence check exercised (the driver counts the tags per instance, the harness reports them
  in the evidence); nothing is decided by a tag.  A tag is computed from the state before the update,
  the state after it and the value, by evaluating the model's OWN guard functions again — so a tag
  names a guard outcome of the model text, not of the Python code.
-/
import FrourosModel.Dets
namespace Frouros
open Num

namespace Det
variable {α : Type} [Carrier α]

private def F' (x : Float) : α := Carrier.ofFloat x

private def flags (d w : Bool) : String := if d then "D" else if w then "W" else "N"

def branchDDM (c : DDM.Cfg α) (o n : DDM.State α) : String :=
  if c.minN ≤ n.n then
    let (eps, _) := DDM.epsStd n.er n.n
    (if DDM.belowMin eps o.minPS then "min" else "keep") ++ "." ++ flags n.drift n.warning
  else "warm"

def branchRDDM (c : RDDM.Cfg α) (o n : RDDM.State α) : String :=
  match n.err with
  | some _ => "err"
  | none =>
    let r := if o.rddmDrift then "rebuild." else ""
    if c.minN ≤ n.n then
      let (eps, _) := DDM.epsStd n.er n.n
      let v :=
        if n.drift then
          (if DDM.exceeds eps n.minPS c.drift then
             (if o.rddmDrift || o.numWarnings == 0 then "D.keeplast" else "D.afterwarn")
           else "D.warnlimit")
        else if n.warning then "W" else "N"
      r ++ v ++ (if n.rddmDrift && !n.drift then ".maxconcept" else "")
    else r ++ "warm"

def branchEDDM (c : EDDM.Cfg α) (o n : EDDM.State α) (v : α) : String :=
  if Num.beq v (Num.one : α) then
    if c.minMis ≤ n.n then
      let thr := n.mean + c.level * n.std
      let newMax := match o.maxThr with | none => true | some mx => Num.gt thr mx
      if newMax then "err.newmax"
      else if c.minMis ≤ n.numMis then "err." ++ flags n.drift n.warning
      else "err.few"
    else "err.warm"
  else "ok"

def branchECDD (c : ECDD.Cfg α) (n : ECDD.State α) : String :=
  if c.minN ≤ n.n then flags n.drift n.warning else "warm"

def branchHDDMA (c : HDDMA.Cfg α) (o : HDDMA.State α) (n : HDDMA.State α) (v : α) : String :=
  let z := o.t.z.update v
  let x := if o.t.x.n == 0 then z else o.t.x
  let y := if c.twoSided && o.t.y.n == 0 then z else o.t.y
  let epsZ := HDDMA.bound c z.n
  let mx := Num.le (z.mean + epsZ) (x.mean + HDDMA.bound c x.n)
  let my := c.twoSided && Num.le (y.mean - HDDMA.bound c y.n) (z.mean - epsZ)
  let x := if mx then z else x
  let y := if my then z else y
  let cut := (if mx then "cutx" else "keepx") ++ (if c.twoSided then (if my then "+cuty" else "+keepy") else "")
  if c.minN ≤ n.n then
    let (di, wi) := HDDMA.side c x z true
    let (dd, wd) := if c.twoSided then HDDMA.side c y z false else (false, false)
    let s := (if di then "Di" else if wi then "Wi" else "Ni") ++
             (if c.twoSided then (if dd then "Dd" else if wd then "Wd" else "Nd") else "")
    cut ++ "." ++ s
  else cut ++ ".warm"

def branchHDDMW (c : HDDMW.Cfg α) (o n : HDDMW.State α) (v : α) : String :=
  let total := HDDMW.Sample.update c.lam o.t.total v
  let eps := HDDMW.mcBound total.ibc c.lam
  let newInc := match o.t.incCut with | none => true | some cp => Num.lt (total.ewma.mean + eps) cp
  let newDec := c.twoSided && (match o.t.decCut with | none => true | some cp => Num.gt (total.ewma.mean - eps) cp)
  let cut := (if newInc then "cuti" else "keepi") ++ (if c.twoSided then (if newDec then "+cutd" else "+keepd") else "")
  if c.minN ≤ n.n then
    let t := HDDMW.updateStats c o.t v
    let di := HDDMW.thr t.inc1 t.inc2 c.alphaD
    let wi := !di && HDDMW.thr t.inc1 t.inc2 c.alphaW
    let dd := c.twoSided && !di && HDDMW.thr t.dec2 t.dec1 c.alphaD
    let wd := c.twoSided && !(wi || dd) && !di && HDDMW.thr t.dec2 t.dec1 c.alphaW
    let s := (if di then "Di" else if wi then "Wi" else "Ni") ++
             (if c.twoSided then (if dd then "Dd" else if wd then "Wd" else "Nd") else "")
    cut ++ "." ++ s
  else cut ++ ".warm"

def branchADWIN (c : ADWIN.Cfg α) (o n : ADWIN.State α) (v : α) : String :=
  if n.err then "err" else
  let merges := match o.rows with
    | [] => 0
    | r0 :: rest => ADWIN.compressMerges c.m 0 (r0 ++ [(v, Num.zero)]) rest
  let ins := "merge" ++ toString (min merges 3)
  let checked := n.n % c.clock == 0 && c.minN < o.width + 1
  let deleted := (o.numBuckets + 1 + merges) - n.numBuckets
  let chk := if !checked then "nocheck" else if deleted == 0 then "check.nocut"
             else if deleted == 1 then "check.cut1" else "check.cutmany"
  let rowsDropped := decide (n.rows.length < (ADWIN.insert c { o with n := o.n + 1, drift := false } v).rows.length)
  ins ++ "." ++ chk ++ (if rowsDropped then ".rowsdropped" else "")

def branchKSWIN (c : KSWIN.Cfg α) (n : KSWIN.State α) : String :=
  if c.minN ≤ n.window.length then (if n.drift then "D" else "N") else "fill"

def branchSTEPD (c : STEPD.Cfg α) (n : STEPD.State) : String :=
  match n.err with
  | some _ => "err"
  | none =>
    if 2 * c.minN ≤ n.n then
      let inf := match STEPD.statistic (α := α) n.n n.correctTotal n.win.q.count n.win.numTrue with
        | none => "novar." | some _ => ""
      inf ++ flags n.drift n.warning
    else "warm"

def branchCUSUM (c : CUSUMFam.Cfg α) (n : CUSUMFam.State α) : String :=
  let k := match c.kind with | .cusum => "cusum" | .pageHinkley => "ph" | .gma => "gma"
  let clip := if c.kind == .cusum && Num.beq n.sum (Num.zero : α) then ".clipped" else ""
  k ++ "." ++ (if c.minN ≤ n.n then (if n.drift then "D" else "N") else "warm") ++ clip

def branchBOCD (c : BOCD.Cfg α) (n : BOCD.State α) : String :=
  if c.minN ≤ n.n then
    let am := BOCD.argmax n.row
    if n.drift then (if am == 0 then "D.changepoint" else "D.shortrun") else "N"
  else "warm"

/-- tag of the update `o → n` with value `v` -/
def branch (o n : Det α) (v : Float) : String :=
  match o, n with
  | .ddm c so, .ddm _ sn => "DDM:" ++ branchDDM c so sn
  | .rddm c so, .rddm _ sn => "RDDM:" ++ branchRDDM c so sn
  | .eddm c so, .eddm _ sn => "EDDM:" ++ branchEDDM c so sn (F' v)
  | .ecdd c _, .ecdd _ sn => "ECDDWT:" ++ branchECDD c sn
  | .hddma c so, .hddma _ sn => (if c.twoSided then "HDDMA2:" else "HDDMA1:") ++ branchHDDMA c so sn (F' v)
  | .hddmw c so, .hddmw _ sn => (if c.twoSided then "HDDMW2:" else "HDDMW1:") ++ branchHDDMW c so sn (F' v)
  | .adwin c so, .adwin _ sn => "ADWIN:" ++ branchADWIN c so sn (F' v)
  | .kswin c _, .kswin _ sn => "KSWIN:" ++ branchKSWIN c sn
  | .stepd c _, .stepd _ sn => "STEPD:" ++ branchSTEPD c sn
  | .cusum c _, .cusum _ sn => "CUSUMFAM:" ++ branchCUSUM c sn
  | .bocd c _, .bocd _ sn => "BOCD:" ++ branchBOCD c sn
  | _, _ => "?"

/-- tag of a `reset()`: what state it found -/
def resetTag (o : Det α) : String :=
  let (cls, n, d, w) : String × Nat × Bool × Bool := match o with
    | .ddm _ s => ("DDM", s.n, s.drift, s.warning)
    | .rddm _ s => ("RDDM", s.n, s.drift, s.warning)
    | .eddm _ s => ("EDDM", s.n, s.drift, s.warning)
    | .ecdd _ s => ("ECDDWT", s.n, s.drift, s.warning)
    | .hddma c s => (if c.twoSided then "HDDMA2" else "HDDMA1", s.n, s.drift, s.warning)
    | .hddmw c s => (if c.twoSided then "HDDMW2" else "HDDMW1", s.n, s.drift, s.warning)
    | .adwin _ s => ("ADWIN", s.n, s.drift, false)
    | .kswin _ s => ("KSWIN", s.n, s.drift, false)
    | .stepd _ s => ("STEPD", s.n, s.drift, s.warning)
    | .cusum _ s => ("CUSUMFAM", s.n, s.drift, false)
    | .bocd _ s => ("BOCD", s.n, s.drift, false)
  cls ++ ":reset." ++ (if n == 0 then "fresh" else if d then "indrift" else if w then "inwarning" else "incontrol")

end Det
end Frouros
