/-
  Model of the fit / compare / reset / update protocol of the data-drift detectors
  (frouros/detectors/data_drift/{base,batch/base,streaming/base}.py and the CVM override).
  Arrays are abstracted to `(shape, data)`; the statistic is a parameter.
-/
import FrourosModel.Stats
namespace Frouros.Batch
open Frouros

inductive Kind where | univariate | multivariate
  deriving DecidableEq, Repr

/-- what the caller passes as `X` -/
inductive Input (D : Type) where
  | array (shape : List Nat) (data : D)
  | nonArray          -- list, scalar, None … (no `.shape`)

structure Cfg where
  kind : Kind
  /-- CVMTest: at least 2 samples at fit and compare -/
  minSamples : Nat := 0

structure State (D : Type) where
  xref : Option (List Nat × D)

def init {D : Type} : State D := ⟨none⟩

def dimCheck (k : Kind) (a b : Nat) : Bool := match k with | .univariate => a == b | .multivariate => a ≥ b

/-- `_check_fit_dimensions` -/
def checkFit (k : Kind) (shape : List Nat) : Except Err Unit :=
  match shape with
  | _ :: d1 :: _ => if dimCheck k d1 1 then .ok () else .error .dimension
  | _ => if dimCheck k shape.length 1 then .ok () else .error .dimension

/-- `_check_compare_dimensions` -/
def checkCompare (refShape shape : List Nat) : Except Err Unit :=
  match refShape, shape with
  | _ :: r1 :: _, _ :: x1 :: _ => if r1 != x1 then .error .mismatchDimension else .ok ()
  | _, _ => if refShape.length != shape.length then .error .mismatchDimension else .ok ()

def checkSamples (c : Cfg) (shape : List Nat) : Except Err Unit :=
  if c.minSamples == 0 then .ok ()
  else match shape with
    | n :: _ => if n < c.minSamples then .error .insufficientSamples else .ok ()
    | [] => .error .index       -- `X.shape[0]` on a 0-d array

def fit {D : Type} (c : Cfg) (s : State D) (x : Input D) : Except Err (State D) :=
  match x with
  | .nonArray => .error .other           -- AttributeError: no `.shape`
  | .array shape data => do
    checkFit c.kind shape
    checkSamples c shape
    pure { s with xref := some (shape, data) }

/-- `compare`: the state is returned unchanged; the result depends on `(reference, x)` only -/
def compare {D R : Type} (stat : D → D → R) (c : Cfg) (s : State D) (x : Input D) : Except Err (R × State D) :=
  match s.xref with
  | none => .error .missingFit
  | some (rshape, rdata) =>
    match x with
    | .nonArray => .error .other
    | .array shape data => do
      checkCompare rshape shape
      checkSamples c shape
      pure (stat rdata data, s)

def reset {D : Type} (_s : State D) : State D := ⟨none⟩

end Frouros.Batch

namespace Frouros.Batch
/-! ### streaming data-drift detectors: `update` (frouros/detectors/data_drift/streaming/base.py) -/
structure StreamState (D : Type) where
  xref : Option (List Nat × D)
  n : Nat

def StreamState.init {D : Type} : StreamState D := ⟨none, 0⟩
def StreamState.fit {D : Type} (c : Cfg) (s : StreamState D) (x : Input D) : Except Err (StreamState D) :=
  match x with
  | .nonArray => .error .other
  | .array shape data => do
    checkFit c.kind shape
    pure { s with xref := some (shape, data) }
/-- `update`: the fitted check comes first, the counter is incremented only afterwards -/
def StreamState.update {D : Type} (s : StreamState D) : Except Err (StreamState D) :=
  match s.xref with
  | none => .error .missingFit
  | some _ => .ok { s with n := s.n + 1 }
def StreamState.reset {D : Type} (_s : StreamState D) : StreamState D := ⟨none, 0⟩
end Frouros.Batch
