/-
  Numeric carrier of the model.  Every model function is polymorphic in `α` with `[Num α]`:
  * `Float`  – executable; used by the native driver for the correspondence check against /repo
  * `ℝ`      – noncomputable instance in `FrourosProofs/RealNum.lean`; arithmetic theorems
  * control-flow theorems are proved for every `α` (hence hold for `Float` literally).
  No imports: core Lean only.
-/
namespace Frouros

class Num (α : Type) extends Add α, Sub α, Mul α, Div α, Neg α where
  ofNat : Nat → α
  /-- decimal literal `m * 10^(-e)` (correctly rounded at `Float`) -/
  ofDec : Nat → Nat → α
  sqrt : α → α
  log : α → α
  exp : α → α
  abs : α → α
  /-- `x ** n` for a natural exponent (C `pow` at `Float`) -/
  npow : α → Nat → α
  lt : α → α → Bool
  le : α → α → Bool
  beq : α → α → Bool

namespace Num
variable {α : Type} [Num α]

@[inline] def zero : α := Num.ofNat 0
@[inline] def one : α := Num.ofNat 1
@[inline] def two : α := Num.ofNat 2
@[inline] def gt (a b : α) : Bool := Num.lt b a
@[inline] def ge (a b : α) : Bool := Num.le b a
/-- `np.maximum(0, x)` for non-NaN x -/
@[inline] def max0 (x : α) : α := if Num.lt x (zero : α) then zero else x
@[inline] def sq (x : α) : α := x * x
end Num

instance : Num Float where
  ofNat := Float.ofNat
  ofDec m e := OfScientific.ofScientific m true e
  sqrt := Float.sqrt
  log := Float.log
  exp := Float.exp
  abs := Float.abs
  npow x n := Float.pow x (Float.ofNat n)
  lt a b := a < b
  le a b := a ≤ b
  beq a b := a == b

end Frouros
