/- Wire helpers for the line protocol: doubles travel as 16 hex digits of their IEEE bit pattern. -/
import FrourosModel.Num
namespace Frouros.Wire

def hexDigit? (c : Char) : Option Nat :=
  if '0' ≤ c ∧ c ≤ '9' then some (c.toNat - '0'.toNat)
  else if 'a' ≤ c ∧ c ≤ 'f' then some (c.toNat - 'a'.toNat + 10)
  else if 'A' ≤ c ∧ c ≤ 'F' then some (c.toNat - 'A'.toNat + 10)
  else none

def parseHex? (s : String) : Option Nat :=
  if s.isEmpty then none else
  s.foldl (fun acc c => match acc, hexDigit? c with
    | some a, some d => some (a * 16 + d)
    | _, _ => none) (some 0)

def floatOfHex? (s : String) : Option Float :=
  if s.length != 16 then none else (parseHex? s).map (fun n => Float.ofBits n.toUInt64)

def hexOfNat (n : Nat) (width : Nat) : String :=
  let rec go (fuel : Nat) (n : Nat) (acc : List Char) : List Char :=
    match fuel with
    | 0 => acc
    | fuel + 1 => go fuel (n / 16) ((Nat.digitChar (n % 16)) :: acc)
  String.ofList (go width n [])

def hexOfFloat (x : Float) : String :=
  -- canonical NaN so that both sides agree
  if x.isNaN then "7ff8000000000000" else hexOfNat x.toBits.toNat 16

def hexOpt (x : Option Float) : String := match x with | none => "-" | some v => hexOfFloat v
def bit (b : Bool) : String := if b then "1" else "0"

/-- `k=v` lookup in the argument list -/
def arg? (args : List String) (key : String) : Option String :=
  args.findSome? (fun a => match a.splitOn "=" with
    | [k, v] => if k == key then some v else none
    | _ => none)

def argF (args : List String) (key : String) (dflt : Float) : Float :=
  match arg? args key with | some v => (floatOfHex? v).getD dflt | none => dflt
def argN (args : List String) (key : String) (dflt : Nat) : Nat :=
  match arg? args key with | some v => v.toNat?.getD dflt | none => dflt
def argB (args : List String) (key : String) (dflt : Bool) : Bool :=
  match arg? args key with | some v => v == "1" | none => dflt

def floats (l : List Float) : String := " ".intercalate (l.map hexOfFloat)
def parseFloats (ws : List String) : List Float := ws.filterMap floatOfHex?
def parseNats (ws : List String) : List Nat := ws.filterMap String.toNat?

end Frouros.Wire
