/-
  Three executable carriers for the driver: exact `Float`, and two biased copies whose comparisons
  are shifted by a relative margin.  If the three runs of the *same* model text agree on every
  discrete observable, no decision taken so far was within the margin of a tie; otherwise the
  harness truncates the trace there (near-tie exclusion, DESIGN §3.4).
  Exception: `0 ⋚ 0` between two exact zeros is decided exactly (sums of exact zeros are exact on both sides; without this every
  stream starting with 0.0 would be excluded from its first update by ADWIN's `total < 0` test).
-/
import FrourosModel.Num
namespace Frouros

def tieEps : Float := 1e-9

structure FLo where
  v : Float
structure FHi where
  v : Float

def tieScale (a b : Float) : Float :=
  let m := if a.abs > b.abs then a.abs else b.abs
  tieEps * (if m > 1.0 then m else 1.0)

instance : Num FLo where
  add a b := ⟨a.v + b.v⟩
  sub a b := ⟨a.v - b.v⟩
  mul a b := ⟨a.v * b.v⟩
  div a b := ⟨a.v / b.v⟩
  neg a := ⟨-a.v⟩
  ofNat n := ⟨Float.ofNat n⟩
  ofDec m e := ⟨OfScientific.ofScientific m true e⟩
  sqrt a := ⟨a.v.sqrt⟩
  log a := ⟨a.v.log⟩
  exp a := ⟨a.v.exp⟩
  abs a := ⟨a.v.abs⟩
  npow a n := ⟨Float.pow a.v (Float.ofNat n)⟩
  lt a b := if a.v == 0.0 && b.v == 0.0 then false else a.v < b.v - tieScale a.v b.v
  le a b := if a.v == 0.0 && b.v == 0.0 then true else a.v ≤ b.v - tieScale a.v b.v
  beq a b := a.v == b.v

instance : Num FHi where
  add a b := ⟨a.v + b.v⟩
  sub a b := ⟨a.v - b.v⟩
  mul a b := ⟨a.v * b.v⟩
  div a b := ⟨a.v / b.v⟩
  neg a := ⟨-a.v⟩
  ofNat n := ⟨Float.ofNat n⟩
  ofDec m e := ⟨OfScientific.ofScientific m true e⟩
  sqrt a := ⟨a.v.sqrt⟩
  log a := ⟨a.v.log⟩
  exp a := ⟨a.v.exp⟩
  abs a := ⟨a.v.abs⟩
  npow a n := ⟨Float.pow a.v (Float.ofNat n)⟩
  lt a b := if a.v == 0.0 && b.v == 0.0 then false else a.v < b.v + tieScale a.v b.v
  le a b := if a.v == 0.0 && b.v == 0.0 then true else a.v ≤ b.v + tieScale a.v b.v
  beq a b := a.v == b.v

class Carrier (α : Type) extends Num α where
  ofFloat : Float → α
  toFloat : α → Float

instance : Carrier Float := { ofFloat := id, toFloat := id }
instance : Carrier FLo := { ofFloat := FLo.mk, toFloat := FLo.v }
instance : Carrier FHi := { ofFloat := FHi.mk, toFloat := FHi.v }

end Frouros
